#!/usr/bin/env python3
"""Regenerates MANIFEST.json from the table below (single source of truth for the interface)."""
import json, sys
CHECKS = {
 "C12": dict(
   text="Bounded-exhaustive exploration of diff.Compare / DiffCommand.Execute on the real code: every member of a 9-slot feature family with <=2 features x 5 re-serialisations (identity), every ordered pair of members (totality: no panic, no error, terminates). Exhaustive within the stated bound; nothing sampled.",
   note="Trusted: go-openapi loads/spec/validate, recover() as panic observer, 120 s per-case non-termination guard. Bounds: <=2 features per spec (identity), pairs of <=1-feature members quick / <=2-feature members thorough.",
   technique="explicit enumeration of a bounded input space (deviation-bounded DFS over feature choices), oracle = identity/totality on the real diff code",
   ref="3/C12"),
 "C13": dict(
   text="Bounded-exhaustive exploration of a catalogue of elementary narrowing edits (28 leaf-constraint edits x up to 16 embedding sites, structural edits, documented response-side edits) through the real diff.Compare and DiffCommand.Execute; every request-side edit carries a witness request that a reference binder certifies as accepted-before / rejected-after on every run, so the oracle (>=1 Breaking and non-zero exit) is only applied where the statement applies.",
   note="Trusted: mc/refbind (reference request semantics, DESIGN appendix A) and go-openapi/validate for JSON bodies. Known findings (root causes R2-R9 in DESIGN.md) are listed per (edit kind, site) in known_findings.json.",
   technique="explicit enumeration of a bounded edit space (edit kind x site), witness-certified oracle, on the real diff code",
   ref="3/C13"),
 "C14": dict(
   text="Every unordered pair of diff-family members (<=1 feature quick: 2.5k pairs; <=2 features thorough: 2.0M pairs) plus all catalogue edit pairs is compared in both directions by the real diff.Compare; the two reports must be mirror images as multisets of (location, direction class) under the involution over all 56 change codes.",
   note="Location = URL, method, response code, node-name path. Violations are split per location component so one root cause is one signature; 42 known asymmetry signatures (root causes D,E,P,T,C in DESIGN.md).",
   technique="explicit enumeration of ordered spec pairs, mirror-involution oracle on the real diff code",
   ref="3/C14"),
 "C15": dict(
   text="Pairs of family members and catalogue edits are run through the real DiffCommand.Execute with real files in json/txt/-b formats under ignore files derived from the run's own JSON report: all 2^n subsets for n<=4, else none/all(verbatim)/singletons/co-singletons/Breaking/non-Breaking; 5 coherence clauses; plus every change code x compatibility through the JSON round trip.",
   note="In-process Execute error == non-zero exit (cmd/swagger/swagger.go). Known finding: --format json always exits 0 (pinned by TestDiffProcessIgnores).",
   technique="explicit enumeration of (pair, ignore subset, format) through the real command, coherence oracle",
   ref="3/C15"),
 "C19": dict(
   text="Every document of a bounded space (base spec + one of 60 YAML-ambiguous strings or 11 typed values at one of 13+4 value/key positions) is run through the real command objects (flatten, expand, mixin; thorough: flatten full, generate spec --input) in every input-format x output-format combination, and init spec over 6 option fields; clause (i) YAML output loads JSON-equal to JSON output, clause (ii) same result for JSON and YAML input.",
   note="Deciding loader is loads.Spec; numbers compared as float64 (both paths go through float64). The harness' YAML rendering of the input is checked to load back equal before clause (ii) is applied. Loader panics inside go-openapi/analysis (property named %) are classified as unloadable input, not findings. Known finding: the string << (yaml.v3 encoder).",
   technique="explicit enumeration of (scalar x position x command x format combination) through the real commands, differential oracle JSON vs YAML",
   ref="3/C19"),
}
NOT_BUILT = {}
ALL = ["C%02d" % i for i in range(1, 20)]
m = {
 "version": 1,
 "setup_cmd": "cd /verif && ./check.sh --setup",
 "hooks": {
  "guard": "verif",
  "enable": "no source hooks are committed in /repo; instrumentation (map-order and scheduling points) is injected at build time with go build -overlay from the current working tree",
  "baseline_off_cmd": "cd /repo && go test -mod=mod -json -vet=off -count=1 -timeout 25m ./...",
  "source_commits": [],
  "add_only": True,
 },
 "engines": [
  {"name": "xplore", "path": "mc/xplore", "serves_properties": sorted(CHECKS), "kind_free_text": "stateless choice-tree explorer (prefix replay DFS, deviation bounding) driving the real go-swagger code"},
 ],
 "checks": [],
 "not_applicable": [],
 "notes": "Every check: ./check.sh <ID> --tier quick|thorough rebuilds mc/cmd/check against /repo's working tree and runs it. Exit 0 held / only known findings; exit 1 + VIOLATION line; exit 2 harness error.",
}
for pid in ALL:
    if pid in CHECKS:
        c = CHECKS[pid]
        m["checks"].append({
          "property_id": pid,
          "quick_cmd": "./check.sh %s --tier quick" % pid,
          "thorough_cmd": "./check.sh %s --tier thorough" % pid,
          "evidence_file": "/verif/evidence/%s.json" % pid,
          "replay_cmd_template": "./check.sh %s --replay {path}" % pid,
          "engine": "xplore",
          "level_claimed": {"category": "model_checking", "text": c["text"], "design_ref": "DESIGN.md section " + c["ref"]},
          "level_note": c["note"],
          "technique": c["technique"],
        })
    else:
        m["not_applicable"].append({"property_id": pid, "reason": NOT_BUILT.get(pid, "check not built yet in this round (planned in DESIGN.md section 3); not claimed until it exists")})
json.dump(m, open("/verif/MANIFEST.json", "w"), indent=1)
print("checks:", len(m["checks"]), "not_applicable:", len(m["not_applicable"]))
