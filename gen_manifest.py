#!/usr/bin/env python3
"""Regenerates MANIFEST.json from the table below (single source of truth for the interface)."""
import json, sys
CHECKS = {
 "C12": dict(
   text="Bounded-exhaustive exploration of diff.Compare / DiffCommand.Execute on the real code: every member of a 9-slot feature family with <=2 features x 5 re-serialisations (identity), every ordered pair of members (totality: no panic, no error, terminates). Exhaustive within the stated bound; nothing sampled.",
   note="Trusted: go-openapi loads/spec/validate, recover() as panic observer, 120 s per-case non-termination guard. Bounds: <=2 features per spec (identity), pairs of <=1-feature members quick / <=2-feature members thorough.",
   technique="explicit enumeration of a bounded input space (deviation-bounded DFS over feature choices), oracle = identity/totality on the real diff code",
   ref="3/C12"),
}
NOT_BUILT = {}
ALL = ["C%02d" % i for i in range(1, 20)]
m = {
 "version": 1,
 "setup_cmd": "cd /verif && ./check.sh --setup",
 "hooks": {
  "guard": "verif",
  "enable": "no source hooks are committed in /repo; instrumentation (map-order and scheduling points) is injected at build time with go build -overlay from the current working tree",
  "baseline_off_cmd": "cd /repo && go test -mod=mod -json -vet=off -count=1 -timeout 25m ./...",
  "source_commits": [],
  "add_only": True,
 },
 "engines": [
  {"name": "xplore", "path": "mc/xplore", "serves_properties": sorted(CHECKS), "kind_free_text": "stateless choice-tree explorer (prefix replay DFS, deviation bounding) driving the real go-swagger code"},
 ],
 "checks": [],
 "not_applicable": [],
 "notes": "Every check: ./check.sh <ID> --tier quick|thorough rebuilds mc/cmd/check against /repo's working tree and runs it. Exit 0 held / only known findings; exit 1 + VIOLATION line; exit 2 harness error.",
}
for pid in ALL:
    if pid in CHECKS:
        c = CHECKS[pid]
        m["checks"].append({
          "property_id": pid,
          "quick_cmd": "./check.sh %s --tier quick" % pid,
          "thorough_cmd": "./check.sh %s --tier thorough" % pid,
          "evidence_file": "/verif/evidence/%s.json" % pid,
          "replay_cmd_template": "./check.sh %s --replay {path}" % pid,
          "engine": "xplore",
          "level_claimed": {"category": "model_checking", "text": c["text"], "design_ref": "DESIGN.md section " + c["ref"]},
          "level_note": c["note"],
          "technique": c["technique"],
        })
    else:
        m["not_applicable"].append({"property_id": pid, "reason": NOT_BUILT.get(pid, "check not built yet in this round (planned in DESIGN.md section 3); not claimed until it exists")})
json.dump(m, open("/verif/MANIFEST.json", "w"), indent=1)
print("checks:", len(m["checks"]), "not_applicable:", len(m["not_applicable"]))
