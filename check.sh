#!/bin/bash
# check.sh <ID> [--tier quick|thorough] [--replay file] | --setup
# Rebuilds the checker against the current working tree of $VERIF_REPO (default /repo), then runs it.
set -u
export GOFLAGS=-mod=mod GOPROXY=off GOSUMDB=off GOTOOLCHAIN=local
export GOMAXPROCS=${GOMAXPROCS:-16}
VERIF=$(cd "$(dirname "$0")" && pwd)
export VERIF_ROOT=$VERIF
REPO=${VERIF_REPO:-/repo}
export VERIF_REPO=$REPO
mkdir -p $VERIF/.bin
cd $VERIF/mc || exit 2
MODFLAG=""
if [ "$REPO" = /repo ]; then
  cp /repo/go.sum go.sum
else
  sed "s#=> /repo#=> $REPO#" go.mod > $VERIF/.bin/alt.mod
  cp $REPO/go.sum $VERIF/.bin/alt.sum
  MODFLAG="-modfile=$VERIF/.bin/alt.mod"
fi
tmpbin=$VERIF/.bin/check.$$
if ! go build $MODFLAG -o $tmpbin ./cmd/check >$VERIF/.bin/build.$$.log 2>&1; then
  cat $VERIF/.bin/build.$$.log >&2
  rm -f $VERIF/.bin/build.$$.log $tmpbin
  echo "HARNESS-ERROR: checker does not build against $REPO" >&2
  exit 2
fi
rm -f $VERIF/.bin/build.$$.log
mv -f $tmpbin $VERIF/.bin/check
# the real swagger binary, from the same working tree (used by every generator / scanner check)
tmpsw=$VERIF/.bin/swagger.$$
if ! (cd $REPO && go build -o $tmpsw ./cmd/swagger) >$VERIF/.bin/buildsw.$$.log 2>&1; then
  cat $VERIF/.bin/buildsw.$$.log >&2
  rm -f $VERIF/.bin/buildsw.$$.log $tmpsw
  echo "HARNESS-ERROR: swagger does not build in $REPO" >&2
  exit 2
fi
rm -f $VERIF/.bin/buildsw.$$.log
mv -f $tmpsw $VERIF/.bin/swagger
if [ "${1:-}" = "--setup" ]; then
  echo "setup ok"
  exit 0
fi
cd $VERIF
exec $VERIF/.bin/check "$@"
