#!/bin/bash
# check.sh <ID> [--tier quick|thorough] [--replay file] | --setup
# Rebuilds the checker against the current working tree of $VERIF_REPO (default /repo), then runs it.
set -u
export GOFLAGS=-mod=mod GOPROXY=off GOSUMDB=off GOTOOLCHAIN=local
export GOMAXPROCS=${GOMAXPROCS:-16}
VERIF=$(cd "$(dirname "$0")" && pwd)
export VERIF_ROOT=$VERIF
REPO=${VERIF_REPO:-/repo}
export VERIF_REPO=$REPO
# binaries of a scratch tree live in their own directory: a trial on a seeded change never replaces the
# binaries a concurrent run on /repo is using
BIN=$VERIF/.bin
if [ "$REPO" != /repo ]; then BIN=$VERIF/.bin/alt$(echo "$REPO" | tr '/' '_'); fi
mkdir -p $BIN
export VERIF_SWAGGER_BIN=$BIN/swagger
cd $VERIF/mc || exit 2
MODFLAG=""
if [ "$REPO" = /repo ]; then
  cp /repo/go.sum go.sum
else
  sed "s#=> /repo#=> $REPO#" go.mod > $BIN/alt.mod
  cp $REPO/go.sum $BIN/alt.sum
  MODFLAG="-modfile=$BIN/alt.mod"
fi
tmpbin=$BIN/check.$$
if ! go build $MODFLAG -o $tmpbin ./cmd/check >$BIN/build.$$.log 2>&1; then
  cat $BIN/build.$$.log >&2
  rm -f $BIN/build.$$.log $tmpbin
  echo "HARNESS-ERROR: checker does not build against $REPO" >&2
  exit 2
fi
rm -f $BIN/build.$$.log
mv -f $tmpbin $BIN/check
# the real swagger binary, from the same working tree (used by every generator / scanner check)
tmpsw=$BIN/swagger.$$
if ! (cd $REPO && go build -o $tmpsw ./cmd/swagger) >$BIN/buildsw.$$.log 2>&1; then
  cat $BIN/buildsw.$$.log >&2
  rm -f $BIN/buildsw.$$.log $tmpsw
  echo "HARNESS-ERROR: swagger does not build in $REPO" >&2
  exit 2
fi
rm -f $BIN/buildsw.$$.log
mv -f $tmpsw $BIN/swagger
if [ "${1:-}" = "--setup" ]; then
  echo "setup ok"
  exit 0
fi
cd $VERIF
exec $BIN/check "$@"
