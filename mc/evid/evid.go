// Package evid collects what a check run covered, classifies violations against the
// committed known-findings file, writes replay artefacts and the evidence file.
package evid

import (
	"crypto/sha256"
	"encoding/hex"
	"encoding/json"
	"fmt"
	"os"
	"path/filepath"
	"sort"
	"strconv"
	"strings"
	"sync"
	"time"
)

// Root is /verif (overridable for tests).
func Root() string {
	if r := os.Getenv("VERIF_ROOT"); r != "" {
		return r
	}
	return "/verif"
}

// OutRoot is where evidence and replay files go: /verif, unless VERIF_OUT names a scratch
// directory (seeded-change trials must not overwrite the evidence of the unchanged tree).
func OutRoot() string {
	if r := os.Getenv("VERIF_OUT"); r != "" {
		return r
	}
	return Root()
}

// Finding is one entry of known_findings.json.
type Finding struct {
	Property  string `json:"property"`
	Signature string `json:"signature"`
	Status    string `json:"status"` // "known" | "fixed"
	Commit    string `json:"commit,omitempty"`
	What      string `json:"what"`
	Input     string `json:"input,omitempty"`
}

type findingsFile struct {
	Findings []Finding `json:"findings"`
}

// Violation is one violating case.
type Violation struct {
	Signature string      `json:"signature"`
	What      string      `json:"what"`
	Case      interface{} `json:"case"`
	Observed  interface{} `json:"observed,omitempty"`
	Expected  interface{} `json:"expected,omitempty"`
	Size      int         `json:"-"` // smaller = preferred representative
}

// Run accumulates one check run.
type Run struct {
	mu       sync.Mutex
	Prop     string
	Tier     string
	Seed     int
	start    time.Time
	evals    int
	distinct map[string]bool
	nontriv  map[string]bool
	samples  []interface{}
	maxSamp  int
	outcomes map[string]int
	counters map[string]int
	viol     map[string][]Violation
	Rule     string
	Assume   []string
	Extra    map[string]interface{}
	States   int
	Trans    int
	Traces   int
	Exhaust  bool
	notes    []string
	harness  []string
	Replay   bool // replay mode: report, but write neither evidence nor replay files
}

// New starts a run.
func New(prop, tier string) *Run {
	seed, _ := strconv.Atoi(os.Getenv("VERIF_SEED"))
	return &Run{Prop: prop, Tier: tier, Seed: seed, start: time.Now(),
		distinct: map[string]bool{}, nontriv: map[string]bool{}, outcomes: map[string]int{},
		counters: map[string]int{}, viol: map[string][]Violation{}, maxSamp: 6, Extra: map[string]interface{}{}, Exhaust: true}
}

// Hash canonical JSON of v.
func Hash(v interface{}) string {
	b, err := json.Marshal(v)
	if err != nil {
		b = []byte(fmt.Sprintf("%#v", v))
	}
	s := sha256.Sum256(b)
	return hex.EncodeToString(s[:8])
}

// Case records one executed case. canon identifies it (for distinctness), nontrivial
// is the per-property predicate, outcome is a coarse class of what was observed.
func (r *Run) Case(canon interface{}, nontrivial bool, outcome string) {
	h := Hash(canon)
	r.mu.Lock()
	defer r.mu.Unlock()
	r.evals++
	first := !r.distinct[h]
	r.distinct[h] = true
	if nontrivial {
		r.nontriv[h] = true
	}
	r.outcomes[outcome]++
	if first && len(r.samples) < r.maxSamp && (nontrivial || len(r.samples) == 0) {
		r.samples = append(r.samples, canon)
	}
}

// CaseKeyed is Case with a precomputed short key (avoids marshalling big cases twice).
func (r *Run) CaseKeyed(key string, sample interface{}, nontrivial bool, outcome string) {
	r.mu.Lock()
	defer r.mu.Unlock()
	r.evals++
	first := !r.distinct[key]
	r.distinct[key] = true
	if nontrivial {
		r.nontriv[key] = true
	}
	r.outcomes[outcome]++
	if first && len(r.samples) < r.maxSamp && (nontrivial || len(r.samples) == 0) {
		r.samples = append(r.samples, sample)
	}
}

// Sample forces a sample in.
func (r *Run) Sample(s interface{}) {
	r.mu.Lock()
	defer r.mu.Unlock()
	if len(r.samples) < r.maxSamp+4 {
		r.samples = append(r.samples, s)
	}
}

// Count bumps a named counter reported under coverage.counters.
func (r *Run) Count(name string, n int) {
	r.mu.Lock()
	r.counters[name] += n
	r.mu.Unlock()
}

// Evals returns the number of evaluations so far.
func (r *Run) Evals() int { r.mu.Lock(); defer r.mu.Unlock(); return r.evals }

// Note adds a free-text note to the evidence.
func (r *Run) Note(format string, a ...interface{}) {
	r.mu.Lock()
	r.notes = append(r.notes, fmt.Sprintf(format, a...))
	r.mu.Unlock()
}

// NotExhaustive records that a cap truncated the enumeration.
func (r *Run) NotExhaustive(why string) {
	r.mu.Lock()
	r.Exhaust = false
	r.notes = append(r.notes, "not exhaustive: "+why)
	r.mu.Unlock()
}

// HarnessError records a failure of the machinery (never a VIOLATION).
func (r *Run) HarnessError(format string, a ...interface{}) {
	r.mu.Lock()
	r.harness = append(r.harness, fmt.Sprintf(format, a...))
	r.mu.Unlock()
}

// Violate records a violating case.
func (r *Run) Violate(v Violation) {
	if v.Size == 0 {
		b, _ := json.Marshal(v.Case)
		v.Size = len(b)
	}
	r.mu.Lock()
	r.viol[v.Signature] = append(r.viol[v.Signature], v)
	r.mu.Unlock()
}

// KnownSignatures returns the signatures listed as known findings for a property (read-only).
func KnownSignatures(prop string) map[string]bool {
	out := map[string]bool{}
	for _, f := range loadFindings() {
		if f.Property == prop && f.Status == "known" {
			out[f.Signature] = true
		}
	}
	return out
}

func loadFindings() []Finding {
	b, err := os.ReadFile(filepath.Join(Root(), "known_findings.json"))
	if err != nil {
		return nil
	}
	var f findingsFile
	if err := json.Unmarshal(b, &f); err != nil {
		fmt.Fprintf(os.Stderr, "known_findings.json: %v\n", err)
		return nil
	}
	return f.Findings
}

// Finish prints KNOWN-FINDING / VIOLATION lines, writes replay files and the evidence
// file, and returns the process exit code.
func (r *Run) Finish() int {
	r.mu.Lock()
	defer r.mu.Unlock()
	known := map[string]Finding{}
	for _, f := range loadFindings() {
		if f.Property == r.Prop && f.Status == "known" {
			known[f.Signature] = f
		}
	}
	sigs := make([]string, 0, len(r.viol))
	for s := range r.viol {
		sigs = append(sigs, s)
	}
	sort.Strings(sigs)
	newViol := 0
	knownSeen := 0
	printed := 0
	var violSummaries []map[string]interface{}
	for _, s := range sigs {
		vs := r.viol[s]
		sort.SliceStable(vs, func(i, j int) bool { return vs[i].Size < vs[j].Size })
		v := vs[0]
		if f, ok := known[s]; ok {
			knownSeen++
			fmt.Printf("KNOWN-FINDING: property=%s %s %s (%d cases)\n", r.Prop, s, oneLine(f.What), len(vs))
			continue
		}
		newViol++
		if r.Replay {
			fmt.Printf("VIOLATION property=%s replay=(replayed) signature=%q what=%s\n", r.Prop, s, oneLine(v.What))
			continue
		}
		dir := filepath.Join(OutRoot(), "replays", r.Prop)
		_ = os.MkdirAll(dir, 0o755)
		path := filepath.Join(dir, Hash(s)+".json")
		rep := map[string]interface{}{
			"property": r.Prop, "signature": s, "what": v.What, "case": v.Case,
			"observed": v.Observed, "expected": v.Expected, "cases_with_this_signature": len(vs),
			"replay_cmd": fmt.Sprintf("./check.sh %s --replay %s", r.Prop, path),
		}
		b, _ := json.MarshalIndent(rep, "", " ")
		_ = os.WriteFile(path, b, 0o644)
		if printed < 25 {
			fmt.Printf("VIOLATION property=%s replay=%s signature=%q what=%s\n", r.Prop, path, s, oneLine(v.What))
			printed++
		}
		violSummaries = append(violSummaries, map[string]interface{}{"signature": s, "what": oneLine(v.What), "cases": len(vs)})
	}
	if newViol > printed {
		fmt.Printf("(%d further violation signatures not printed)\n", newViol-printed)
	}
	cov := map[string]interface{}{
		"evaluations":                   r.evals,
		"distinct_nontrivial":           len(r.nontriv),
		"distinct_cases":                len(r.distinct),
		"rule":                          r.Rule,
		"samples":                       r.samples,
		"states":                        statesOf(r),
		"transitions":                   maxi(r.Trans, r.evals),
		"traces_validated_against_impl": maxi(r.Traces, r.evals),
		"exhaustive":                    r.Exhaust && len(r.harness) == 0,
		"distinct_outcomes":             len(r.outcomes),
		"outcomes":                      r.outcomes,
		"counters":                      r.counters,
		"known_findings_observed":       knownSeen,
		"notes":                         r.notes,
	}
	if len(r.samples) == 0 {
		cov["samples"] = []interface{}{"(no case executed)"}
	}
	for k, v := range r.Extra {
		cov[k] = v
	}
	if len(violSummaries) > 0 {
		cov["new_violations"] = violSummaries
	}
	if len(r.harness) > 0 {
		cov["harness_errors"] = r.harness
	}
	ev := map[string]interface{}{
		"property_id": r.Prop,
		"tier":        r.Tier,
		"seed":        r.Seed,
		"level":       "model_checking",
		"coverage":    cov,
		"assumptions": r.Assume,
		"wall_s":      time.Since(r.start).Seconds(),
		"violations":  newViol,
	}
	if r.Assume == nil {
		ev["assumptions"] = []string{}
	}
	if r.Replay {
		if newViol > 0 {
			return 1
		}
		fmt.Printf("%s replay: no violation reproduced\n", r.Prop)
		return 0
	}
	b, _ := json.MarshalIndent(ev, "", " ")
	_ = os.MkdirAll(filepath.Join(OutRoot(), "evidence"), 0o755)
	if err := os.WriteFile(filepath.Join(OutRoot(), "evidence", r.Prop+".json"), b, 0o644); err != nil {
		fmt.Fprintf(os.Stderr, "cannot write evidence: %v\n", err)
		return 2
	}
	fmt.Printf("%s tier=%s evaluations=%d distinct=%d nontrivial=%d outcomes=%d known=%d new_violations=%d exhaustive=%v wall=%.1fs\n",
		r.Prop, r.Tier, r.evals, len(r.distinct), len(r.nontriv), len(r.outcomes), knownSeen, newViol, cov["exhaustive"], time.Since(r.start).Seconds())
	if newViol > 0 {
		return 1
	}
	if len(r.harness) > 0 {
		for _, h := range r.harness {
			fmt.Fprintf(os.Stderr, "HARNESS-ERROR %s: %s\n", r.Prop, oneLine(h))
		}
		return 2
	}
	return 0
}

func statesOf(r *Run) int {
	if r.States > 0 {
		return r.States
	}
	return len(r.distinct)
}

func maxi(a, b int) int {
	if a > b {
		return a
	}
	return b
}

func oneLine(s string) string {
	s = strings.ReplaceAll(s, "\n", " | ")
	if len(s) > 300 {
		s = s[:300] + "…"
	}
	return s
}
