// Package xplore is the stateless choice-tree explorer shared by every check.
//
// A body is an ordinary Go function that asks Choose(n,label) whenever it has a
// decision to make (which schema shape, which edit, which map-iteration order, which
// thread runs next, which action a history takes next).  Explore re-runs the body
// from scratch for every path of the choice tree: a run replays a recorded prefix
// and then answers 0 (the default) at every later point; the explorer then branches
// on every later point.  MaxDeviations bounds the number of non-default answers on
// one path (iterative deviation bounding); -1 means the whole tree.
//
// Nothing here samples: every path within the bound is executed exactly once.  A cap
// (MaxRuns) that truncates the enumeration is reported in Stats.Capped so that the
// caller can say exhaustive:false.
package xplore

import (
	"fmt"
)

// Point is one executed choice point.
type Point struct {
	N      int    `json:"n"`
	Label  string `json:"label"`
	Choice int    `json:"choice"`
}

// Ctx is handed to the body for one execution.
type Ctx struct {
	prefix []int
	labels []string // labels recorded when the prefix was first executed ("" = unknown)
	trace  []Point
}

type skip struct{}

// Skip abandons the current path (an alphabet combination that is not a case).
func (c *Ctx) Skip() { panic(skip{}) }

// Choose returns a value in [0,n).  0 is the default answer.
func (c *Ctx) Choose(n int, label string) int {
	if n <= 0 {
		panic(fmt.Sprintf("xplore: Choose(%d,%q)", n, label))
	}
	i := len(c.trace)
	ch := 0
	if i < len(c.prefix) {
		ch = c.prefix[i]
		if ch >= n {
			panic(fmt.Sprintf("xplore: replay divergence at point %d (%q): recorded choice %d but only %d alternatives", i, label, ch, n))
		}
		if i < len(c.labels) && c.labels[i] != "" && c.labels[i] != label {
			panic(fmt.Sprintf("xplore: replay divergence at point %d: recorded label %q, now %q", i, c.labels[i], label))
		}
	}
	c.trace = append(c.trace, Point{N: n, Label: label, Choice: ch})
	return ch
}

// Bool is Choose(2): false is the default.
func (c *Ctx) Bool(label string) bool { return c.Choose(2, label) == 1 }

// Trace returns the points executed so far.
func (c *Ctx) Trace() []Point { return append([]Point(nil), c.trace...) }

// Choices returns the choice vector executed so far (a replayable schedule).
func (c *Ctx) Choices() []int {
	out := make([]int, len(c.trace))
	for i, p := range c.trace {
		out[i] = p.Choice
	}
	return out
}

// Pick chooses one of opts; opts[0] is the default.
func Pick[T any](c *Ctx, label string, opts ...T) T {
	return opts[c.Choose(len(opts), label)]
}

// Options bound an exploration.
type Options struct {
	MaxDeviations int // -1: unbounded (whole tree)
	MaxRuns       int // 0: no cap
	Shard, Shards int // Shards<=1: no sharding; otherwise only paths whose index%Shards==Shard are *executed by the callback*
}

// Stats is what an exploration covered.
type Stats struct {
	Runs          int  // complete executions of the body (skipped paths excluded)
	Skipped       int  // paths abandoned with Skip
	Points        int  // choice points executed over all runs
	MaxDepth      int  // longest choice vector
	Capped        bool // MaxRuns hit: enumeration incomplete
	MaxDeviations int
}

// Explore enumerates every path of body's choice tree within the bound, depth first.
// body must be deterministic given the answers of Choose.
func Explore(o Options, body func(c *Ctx)) Stats {
	st := Stats{MaxDeviations: o.MaxDeviations}
	type frame struct {
		prefix []int
		labels []string
	}
	stack := []frame{{}}
	for len(stack) > 0 {
		f := stack[len(stack)-1]
		stack = stack[:len(stack)-1]
		if o.MaxRuns > 0 && st.Runs >= o.MaxRuns {
			st.Capped = true
			break
		}
		c := &Ctx{prefix: f.prefix, labels: f.labels}
		skipped := runBody(c, body)
		if len(c.trace) < len(f.prefix) {
			panic(fmt.Sprintf("xplore: replay divergence: prefix has %d choices but the body asked only %d", len(f.prefix), len(c.trace)))
		}
		if skipped {
			st.Skipped++
		} else {
			st.Runs++
		}
		st.Points += len(c.trace)
		if len(c.trace) > st.MaxDepth {
			st.MaxDepth = len(c.trace)
		}
		// branch on every point after the prefix; push in reverse so that the
		// simplest alternatives are explored first.
		labels := make([]string, len(c.trace))
		dev := make([]int, len(c.trace)+1)
		for i, p := range c.trace {
			labels[i] = p.Label
			dev[i+1] = dev[i]
			if p.Choice != 0 {
				dev[i+1]++
			}
		}
		for i := len(c.trace) - 1; i >= len(f.prefix); i-- {
			if o.MaxDeviations >= 0 && dev[i]+1 > o.MaxDeviations {
				continue
			}
			for alt := c.trace[i].N - 1; alt >= 1; alt-- {
				np := make([]int, i+1)
				for j := 0; j < i; j++ {
					np[j] = c.trace[j].Choice
				}
				np[i] = alt
				stack = append(stack, frame{prefix: np, labels: labels[:i+1]})
			}
		}
	}
	return st
}

func runBody(c *Ctx, body func(c *Ctx)) (skipped bool) {
	defer func() {
		if r := recover(); r != nil {
			if _, ok := r.(skip); ok {
				skipped = true
				return
			}
			panic(r)
		}
	}()
	body(c)
	return false
}

// Replay runs body once along a recorded choice vector (a divergence panics).
func Replay(choices []int, body func(c *Ctx)) {
	c := &Ctx{prefix: choices}
	runBody(c, body)
	if len(c.trace) < len(choices) {
		panic("xplore: replay divergence: body asked fewer choices than recorded")
	}
}

// Collect enumerates the whole tree of gen and returns the produced values in
// exploration order (simplest first).
func Collect[T any](o Options, gen func(c *Ctx) T) ([]T, Stats) {
	var out []T
	st := Explore(o, func(c *Ctx) {
		v := gen(c)
		out = append(out, v)
	})
	return out, st
}
