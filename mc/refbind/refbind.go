// Package refbind is the reference semantics of Swagger 2.0 request binding used as the oracle
// of C03/C04 and to certify witnesses in C13 (DESIGN.md appendix A).  It is deliberately short
// and boring: extraction, type/format parsing, collectionFormat splitting, validations.
package refbind

import (
	"encoding/json"
	"fmt"
	"math"
	"math/big"
	"net/http"
	"net/url"
	"regexp"
	"strconv"
	"strings"
	"time"
	"unicode/utf8"

	"github.com/go-openapi/spec"
	"github.com/go-openapi/strfmt"
	"github.com/go-openapi/validate"
)

// Verdict of the reference model for one request.
type Verdict int

const (
	Reach Verdict = iota
	Reject
	DontCare
)

func (v Verdict) String() string { return [...]string{"reach", "reject", "dontcare"}[v] }

// Request is an HTTP request already routed to an operation.
type Request struct {
	Query       url.Values        `json:"query,omitempty"`
	Header      http.Header       `json:"header,omitempty"`
	Path        map[string]string `json:"path,omitempty"`
	Form        url.Values        `json:"form,omitempty"`
	HasBody     bool              `json:"has_body,omitempty"`
	Body        string            `json:"body,omitempty"`
	ContentType string            `json:"content_type,omitempty"`
}

// AnyValue marks a parameter that must be bound but whose value the spec leaves open
// (present-but-empty with allowEmptyValue).
type AnyValue struct{}

// MarshalJSON renders the marker.
func (AnyValue) MarshalJSON() ([]byte, error) { return []byte(`"<any value>"`), nil }

// Result carries the verdict, the values the handler must see (by parameter name; for a name
// used in two locations the key is "in:name"), and the reason.
type Result struct {
	Verdict Verdict
	Values  map[string]interface{}
	Why     string
}

// BodyValidator decides body validity; nil means validate.NewSchemaValidator with root.
type BodyValidator func(schema *spec.Schema, root interface{}, data interface{}) bool

// Options tune the model.
type Options struct {
	Root     interface{} // document used to resolve $ref in body schemas
	BodyOK   BodyValidator
	Consumes []string // effective consumes of the operation (nil: not checked)
}

func defaultBodyOK(schema *spec.Schema, root interface{}, data interface{}) bool {
	v := validate.NewSchemaValidator(schema, root, "", strfmt.Default)
	return v.Validate(data).IsValid()
}

// Bind evaluates params (already $ref-resolved, path-level and operation-level merged) on req.
func Bind(params []spec.Parameter, req Request, o Options) Result {
	res := Result{Values: map[string]interface{}{}}
	verdict := Reach
	why := ""
	names := map[string]int{}
	for _, p := range params {
		names[p.Name]++
	}
	for _, p := range params {
		v, val, w := bindOne(p, req, o)
		key := p.Name
		if names[p.Name] > 1 {
			key = p.In + ":" + p.Name
		}
		if v == Reject {
			return Result{Verdict: Reject, Why: fmt.Sprintf("%s %s: %s", p.In, p.Name, w)}
		}
		if v == DontCare {
			verdict = DontCare
			why = fmt.Sprintf("%s %s: %s", p.In, p.Name, w)
		}
		res.Values[key] = val
	}
	res.Verdict = verdict
	res.Why = why
	return res
}

func bindOne(p spec.Parameter, req Request, o Options) (Verdict, interface{}, string) {
	switch p.In {
	case "body":
		return bindBody(p, req, o)
	case "query":
		vals, present := req.Query[p.Name]
		return bindSimple(p, vals, present)
	case "formData":
		if p.Type == "file" {
			return DontCare, nil, "file parameters are outside the model"
		}
		vals, present := req.Form[p.Name]
		return bindSimple(p, vals, present)
	case "header":
		vals := req.Header[http.CanonicalHeaderKey(p.Name)]
		return bindSimple(p, vals, len(vals) > 0)
	case "path":
		v, ok := req.Path[p.Name]
		if !ok {
			return Reject, nil, "path parameter missing (request not routed)"
		}
		return bindSimple(p, []string{v}, true)
	}
	return DontCare, nil, "unknown location"
}

func bindBody(p spec.Parameter, req Request, o Options) (Verdict, interface{}, string) {
	if !req.HasBody || len(req.Body) == 0 {
		if p.Required {
			return Reject, nil, "required body absent"
		}
		return Reach, nil, ""
	}
	if o.Consumes != nil && req.ContentType != "" {
		ok := false
		for _, c := range o.Consumes {
			if strings.EqualFold(strings.TrimSpace(strings.SplitN(req.ContentType, ";", 2)[0]), c) {
				ok = true
			}
		}
		if !ok {
			return Reject, nil, "content type not consumed"
		}
	}
	var data interface{}
	dec := json.NewDecoder(strings.NewReader(req.Body))
	dec.UseNumber()
	if err := dec.Decode(&data); err != nil {
		return Reject, nil, "malformed JSON body"
	}
	data = numbersToFloat(data)
	if p.Schema == nil {
		return Reach, data, ""
	}
	ok := false
	if o.BodyOK != nil {
		ok = o.BodyOK(p.Schema, o.Root, data)
	} else {
		ok = defaultBodyOK(p.Schema, o.Root, data)
	}
	if !ok {
		return Reject, nil, "body does not validate against its schema"
	}
	return Reach, data, ""
}

func numbersToFloat(v interface{}) interface{} {
	switch t := v.(type) {
	case json.Number:
		if i, err := t.Int64(); err == nil {
			return i
		}
		f, _ := t.Float64()
		return f
	case map[string]interface{}:
		for k, x := range t {
			t[k] = numbersToFloat(x)
		}
		return t
	case []interface{}:
		for i, x := range t {
			t[i] = numbersToFloat(x)
		}
		return t
	}
	return v
}

// simple is the common view of a non-body parameter or an items object.
type simple struct {
	Type, Format, CF string
	Items            *spec.Items
	V                spec.CommonValidations
	Default          interface{}
}

func fromParam(p spec.Parameter) simple {
	return simple{Type: p.Type, Format: p.Format, CF: p.CollectionFormat, Items: p.Items, V: p.CommonValidations, Default: p.Default}
}

func fromItems(it *spec.Items) simple {
	return simple{Type: it.Type, Format: it.Format, CF: it.CollectionFormat, Items: it.Items, V: it.CommonValidations, Default: it.Default}
}

func bindSimple(p spec.Parameter, vals []string, present bool) (Verdict, interface{}, string) {
	s := fromParam(p)
	if s.Type == "array" {
		return bindArrayTop(p, s, vals, present)
	}
	if !present {
		if p.Required {
			return Reject, nil, "required parameter absent"
		}
		if s.Default != nil {
			return Reach, normDefault(s, s.Default), ""
		}
		return Reach, nil, ""
	}
	raw := ""
	if len(vals) > 0 {
		raw = vals[len(vals)-1]
	}
	if raw == "" {
		switch {
		case p.AllowEmptyValue:
			// the request is acceptable (allowEmptyValue); which value is bound is left open
			return Reach, AnyValue{}, ""
		case p.Required:
			if p.In == "path" {
				return DontCare, nil, "empty path segment"
			}
			return Reject, nil, "required parameter empty"
		default:
			return DontCare, nil, "optional parameter present but empty without allowEmptyValue"
		}
	}
	if len(vals) > 1 {
		// repeated key for a scalar: which one wins is not specified
		same := true
		for _, v := range vals {
			if v != raw {
				same = false
			}
		}
		if !same {
			return DontCare, nil, "scalar parameter repeated with different values"
		}
	}
	v, val, why := parseAndValidate(s, raw)
	return v, val, why
}

func normDefault(s simple, d interface{}) interface{} {
	// defaults come from JSON: bring them to the same representation parse() produces
	b, _ := json.Marshal(d)
	var x interface{}
	dec := json.NewDecoder(strings.NewReader(string(b)))
	dec.UseNumber()
	_ = dec.Decode(&x)
	return normTyped(s, numbersToFloat(x))
}

func normTyped(s simple, x interface{}) interface{} {
	switch s.Type {
	case "number":
		switch t := x.(type) {
		case int64:
			return float64(t)
		}
	case "array":
		if l, ok := x.([]interface{}); ok && s.Items != nil {
			o := make([]interface{}, len(l))
			for i := range l {
				o[i] = normTyped(fromItems(s.Items), l[i])
			}
			return o
		}
	}
	return x
}

func split(cf, raw string) []string {
	if raw == "" {
		return nil
	}
	sep := ","
	switch cf {
	case "ssv":
		sep = " "
	case "tsv":
		sep = "\t"
	case "pipes":
		sep = "|"
	}
	return strings.Split(raw, sep)
}

func bindArrayTop(p spec.Parameter, s simple, vals []string, present bool) (Verdict, interface{}, string) {
	var elems []string
	if s.CF == "multi" && (p.In == "query" || p.In == "formData") {
		elems = vals
		for _, v := range vals {
			if v == "" {
				// "p=" with collectionFormat multi: one empty element or no element? unspecified
				return DontCare, nil, "empty value for a multi array"
			}
		}
	} else {
		raw := ""
		if len(vals) > 0 {
			raw = vals[len(vals)-1]
		}
		if len(vals) > 1 {
			return DontCare, nil, "non-multi array parameter repeated"
		}
		elems = split(s.CF, raw)
	}
	if len(elems) == 0 {
		if p.Required {
			if present && p.AllowEmptyValue {
				return Reach, AnyValue{}, ""
			}
			return Reject, nil, "required array parameter absent or empty"
		}
		if present {
			return DontCare, nil, "optional array present but empty"
		}
		if s.Default != nil {
			return Reach, normDefault(s, s.Default), ""
		}
		return Reach, nil, ""
	}
	return bindElems(s, elems)
}

func bindElems(s simple, elems []string) (Verdict, interface{}, string) {
	return bindElemsAt(s, elems, 0)
}

// bindElemsAt: depth 0 is the parameter's own array, depth >= 1 an inner array of a nested array.
func bindElemsAt(s simple, elems []string, depth int) (Verdict, interface{}, string) {
	if s.Items == nil {
		return DontCare, nil, "array without items"
	}
	it := fromItems(s.Items)
	out := make([]interface{}, 0, len(elems))
	verdict := Reach
	why := ""
	for _, e := range elems {
		if e == "" {
			// Two readings exist for an empty element: (A) it is dropped, (B) it is the empty string (for
			// array items: an empty inner array). The request is don't-care unless BOTH readings reject.
			// (Inner arrays only: for the parameter's own array "present but without elements" has its own rules.)
			if depth == 0 {
				return DontCare, nil, "empty element inside a separator list"
			}
			var kept []string
			for _, x := range elems {
				if x != "" {
					kept = append(kept, x)
				}
			}
			va, _, _ := bindElemsAt(s, kept, depth)
			var vb Verdict
			if it.Type == "array" {
				vb, _, _ = bindElemsAt(it, nil, depth+1)
			} else {
				vb, _, _ = parseAndValidate(it, "")
			}
			if va == Reject && vb == Reject {
				return Reject, nil, "empty element: rejected whether it is dropped or read as an empty value"
			}
			return DontCare, nil, "empty element inside a separator list"
		}
		var v Verdict
		var val interface{}
		var w string
		if it.Type == "array" {
			v, val, w = bindElemsAt(it, split(it.CF, e), depth+1)
		} else {
			v, val, w = parseAndValidate(it, e)
		}
		if v == Reject {
			return Reject, nil, "item: " + w
		}
		if v == DontCare {
			verdict, why = DontCare, w
		}
		out = append(out, val)
	}
	if verdict == DontCare {
		return DontCare, nil, why
	}
	// array-level validations
	if s.V.MinItems != nil && int64(len(out)) < *s.V.MinItems {
		return Reject, nil, "minItems"
	}
	if s.V.MaxItems != nil && int64(len(out)) > *s.V.MaxItems {
		return Reject, nil, "maxItems"
	}
	if s.V.UniqueItems {
		seen := map[string]bool{}
		for _, x := range out {
			k := fmt.Sprintf("%T:%v", x, x)
			if seen[k] {
				return Reject, nil, "uniqueItems"
			}
			seen[k] = true
		}
	}
	if len(s.V.Enum) > 0 {
		ok := false
		for _, e := range s.V.Enum {
			if jsonEq(normTyped(s, numbersToFloat(rejson(e))), out) {
				ok = true
			}
		}
		if !ok {
			return Reject, nil, "array enum"
		}
	}
	return Reach, out, ""
}

func rejson(v interface{}) interface{} {
	b, _ := json.Marshal(v)
	var x interface{}
	dec := json.NewDecoder(strings.NewReader(string(b)))
	dec.UseNumber()
	_ = dec.Decode(&x)
	return x
}

func jsonEq(a, b interface{}) bool {
	x, _ := json.Marshal(a)
	y, _ := json.Marshal(b)
	return string(x) == string(y)
}

var uuidRx = regexp.MustCompile(`^[0-9a-fA-F]{8}-[0-9a-fA-F]{4}-[0-9a-fA-F]{4}-[0-9a-fA-F]{4}-[0-9a-fA-F]{12}$`)

// parseAndValidate parses raw by (type, format) and applies the scalar validations.
func parseAndValidate(s simple, raw string) (Verdict, interface{}, string) {
	var val interface{}
	var num *big.Float
	switch s.Type {
	case "string":
		switch s.Format {
		case "date":
			if _, err := time.Parse("2006-01-02", raw); err != nil {
				return Reject, nil, "not a date"
			}
		case "date-time":
			if _, err := time.Parse(time.RFC3339Nano, raw); err != nil {
				return DontCare, nil, "date-time spelling outside RFC 3339 (lenient parsers exist)"
			}
		case "uuid":
			if !uuidRx.MatchString(raw) {
				return Reject, nil, "not a uuid"
			}
		}
		val = raw
	case "integer":
		var err error
		switch s.Format {
		case "int32":
			var i int64
			i, err = strconv.ParseInt(raw, 10, 32)
			val = i
		case "uint32":
			var u uint64
			u, err = strconv.ParseUint(raw, 10, 32)
			val = u
		case "uint64":
			var u uint64
			u, err = strconv.ParseUint(raw, 10, 64)
			val = u
		default:
			var i int64
			i, err = strconv.ParseInt(raw, 10, 64)
			val = i
		}
		if err != nil {
			return Reject, nil, "not an integer of format " + s.Format
		}
		if strings.HasPrefix(raw, "+") {
			return DontCare, nil, "explicit plus sign"
		}
		num, _ = new(big.Float).SetString(raw)
	case "number":
		f, err := strconv.ParseFloat(raw, 64)
		if err != nil || math.IsNaN(f) || math.IsInf(f, 0) {
			if err == nil {
				return DontCare, nil, "NaN/Inf spelling"
			}
			return Reject, nil, "not a number"
		}
		if s.Format == "float" {
			if _, err := strconv.ParseFloat(raw, 32); err != nil {
				return Reject, nil, "out of float32 range"
			}
			f = float64(float32(f))
		}
		lower := strings.ToLower(raw)
		if strings.ContainsAny(lower, "xp_") || strings.Contains(lower, "inf") || strings.Contains(lower, "nan") {
			return DontCare, nil, "exotic float spelling"
		}
		val = f
		num = big.NewFloat(f)
	case "boolean":
		switch raw {
		case "true":
			val = true
		case "false":
			val = false
		default:
			return DontCare, nil, "boolean spelling other than true/false"
		}
	default:
		return DontCare, nil, "type " + s.Type
	}
	// validations
	v := s.V
	if len(v.Enum) > 0 {
		ok := false
		for _, e := range v.Enum {
			if jsonEq(normTyped(s, numbersToFloat(rejson(e))), val) {
				ok = true
			}
		}
		if !ok {
			return Reject, nil, "enum"
		}
	}
	if num != nil {
		if v.Maximum != nil {
			c := num.Cmp(big.NewFloat(*v.Maximum))
			if c > 0 || (c == 0 && v.ExclusiveMaximum) {
				return Reject, nil, "maximum"
			}
		}
		if v.Minimum != nil {
			c := num.Cmp(big.NewFloat(*v.Minimum))
			if c < 0 || (c == 0 && v.ExclusiveMinimum) {
				return Reject, nil, "minimum"
			}
		}
		if v.MultipleOf != nil && *v.MultipleOf > 0 {
			f, _ := num.Float64()
			q := f / *v.MultipleOf
			if q != math.Trunc(q) {
				return Reject, nil, "multipleOf"
			}
		}
	}
	if s.Type == "string" {
		n := int64(utf8.RuneCountInString(raw))
		if v.MaxLength != nil && n > *v.MaxLength {
			return Reject, nil, "maxLength"
		}
		if v.MinLength != nil && n < *v.MinLength {
			return Reject, nil, "minLength"
		}
		if v.Pattern != "" {
			rx, err := regexp.Compile(v.Pattern)
			if err != nil {
				return DontCare, nil, "pattern does not compile"
			}
			if !rx.MatchString(raw) {
				return Reject, nil, "pattern"
			}
		}
	}
	return Reach, val, ""
}

// EffectiveParams merges path-level and operation-level parameters (operation wins on (name,in))
// and resolves #/parameters/ references against doc.
func EffectiveParams(doc *spec.Swagger, pi spec.PathItem, op *spec.Operation) []spec.Parameter {
	resolve := func(p spec.Parameter) spec.Parameter {
		if r := p.Ref.String(); strings.HasPrefix(r, "#/parameters/") {
			if t, ok := doc.Parameters[strings.TrimPrefix(r, "#/parameters/")]; ok {
				return t
			}
		}
		return p
	}
	var out []spec.Parameter
	idx := map[string]int{}
	for _, p := range pi.Parameters {
		p = resolve(p)
		idx[p.In+":"+p.Name] = len(out)
		out = append(out, p)
	}
	for _, p := range op.Parameters {
		p = resolve(p)
		if i, ok := idx[p.In+":"+p.Name]; ok {
			out[i] = p
			continue
		}
		idx[p.In+":"+p.Name] = len(out)
		out = append(out, p)
	}
	return out
}

// EffectiveConsumes is the operation's consumes or the global one.
func EffectiveConsumes(doc *spec.Swagger, op *spec.Operation) []string {
	if len(op.Consumes) > 0 {
		return op.Consumes
	}
	return doc.Consumes
}
