package props

import (
	"bytes"
	"encoding/json"
	"fmt"
	"os"
	"sort"
	"strings"

	"github.com/go-openapi/spec"
)

// J is a JSON object under construction.
type J = map[string]interface{}

// A is a JSON array.
type A = []interface{}

func clone(v interface{}) interface{} {
	switch t := v.(type) {
	case map[string]interface{}:
		o := make(map[string]interface{}, len(t))
		for k, x := range t {
			o[k] = clone(x)
		}
		return o
	case []interface{}:
		o := make([]interface{}, len(t))
		for i, x := range t {
			o[i] = clone(x)
		}
		return o
	default:
		return v
	}
}

func cloneJ(j J) J { return clone(j).(J) }

// at walks (and creates) nested objects: at(doc,"paths","/a","get").
func at(j J, path ...string) J {
	cur := j
	for _, p := range path {
		nx, ok := cur[p].(J)
		if !ok {
			nx = J{}
			cur[p] = nx
		}
		cur = nx
	}
	return cur
}

func get(j interface{}, path ...string) interface{} {
	cur := j
	for _, p := range path {
		m, ok := cur.(J)
		if !ok {
			return nil
		}
		cur = m[p]
	}
	return cur
}

func mustJSON(v interface{}) []byte {
	var buf bytes.Buffer
	enc := json.NewEncoder(&buf)
	enc.SetEscapeHTML(false)
	if err := enc.Encode(v); err != nil {
		panic(err)
	}
	return bytes.TrimRight(buf.Bytes(), "\n")
}

func prettyJSON(v interface{}) []byte {
	b, _ := json.MarshalIndent(v, "", " ")
	return b
}

// toSwagger converts a JSON document into go-openapi's model (as loads.Spec would).
func toSwagger(doc J) (*spec.Swagger, error) {
	var sw spec.Swagger
	if err := json.Unmarshal(mustJSON(doc), &sw); err != nil {
		return nil, err
	}
	return &sw, nil
}

// marshalReversedKeys renders JSON with object keys in reverse lexical order.
func marshalReversedKeys(v interface{}) []byte {
	var buf bytes.Buffer
	writeRev(&buf, v)
	return buf.Bytes()
}

func writeRev(buf *bytes.Buffer, v interface{}) {
	switch t := v.(type) {
	case map[string]interface{}:
		keys := make([]string, 0, len(t))
		for k := range t {
			keys = append(keys, k)
		}
		sort.Sort(sort.Reverse(sort.StringSlice(keys)))
		buf.WriteByte('{')
		for i, k := range keys {
			if i > 0 {
				buf.WriteByte(',')
			}
			buf.Write(mustJSON(k))
			buf.WriteByte(':')
			writeRev(buf, t[k])
		}
		buf.WriteByte('}')
	case []interface{}:
		buf.WriteByte('[')
		for i, x := range t {
			if i > 0 {
				buf.WriteByte(',')
			}
			writeRev(buf, x)
		}
		buf.WriteByte(']')
	default:
		buf.Write(mustJSON(v))
	}
}

// reverseLists returns a copy of doc with every list under a key in keys reversed.
func reverseLists(v interface{}, keys map[string]bool) interface{} {
	switch t := v.(type) {
	case map[string]interface{}:
		o := make(map[string]interface{}, len(t))
		for k, x := range t {
			y := reverseLists(x, keys)
			if keys[k] {
				if l, ok := y.([]interface{}); ok {
					r := make([]interface{}, len(l))
					for i := range l {
						r[len(l)-1-i] = l[i]
					}
					y = r
				}
			}
			o[k] = y
		}
		return o
	case []interface{}:
		o := make([]interface{}, len(t))
		for i, x := range t {
			o[i] = reverseLists(x, keys)
		}
		return o
	default:
		return v
	}
}

// normalizeJSON re-decodes a value through encoding/json so that numbers are float64 etc.
func normalizeJSON(v interface{}) interface{} {
	var out interface{}
	if err := json.Unmarshal(mustJSON(v), &out); err != nil {
		panic(err)
	}
	return out
}

func jsonEqual(a, b interface{}) bool {
	return bytes.Equal(mustJSON(normalizeJSON(a)), mustJSON(normalizeJSON(b)))
}

// firstDiff returns a JSON-pointer-ish path of the first difference between two decoded values.
func firstDiff(a, b interface{}, path string) string {
	switch ta := a.(type) {
	case map[string]interface{}:
		tb, ok := b.(map[string]interface{})
		if !ok {
			return path + " (kind)"
		}
		keys := map[string]bool{}
		for k := range ta {
			keys[k] = true
		}
		for k := range tb {
			keys[k] = true
		}
		ks := make([]string, 0, len(keys))
		for k := range keys {
			ks = append(ks, k)
		}
		sort.Strings(ks)
		for _, k := range ks {
			x, okx := ta[k]
			y, oky := tb[k]
			if !okx {
				return path + "/" + k + " (only right)"
			}
			if !oky {
				return path + "/" + k + " (only left)"
			}
			if d := firstDiff(x, y, path+"/"+k); d != "" {
				return d
			}
		}
		return ""
	case []interface{}:
		tb, ok := b.([]interface{})
		if !ok {
			return path + " (kind)"
		}
		if len(ta) != len(tb) {
			return fmt.Sprintf("%s (len %d vs %d)", path, len(ta), len(tb))
		}
		for i := range ta {
			if d := firstDiff(ta[i], tb[i], fmt.Sprintf("%s/%d", path, i)); d != "" {
				return d
			}
		}
		return ""
	default:
		if !bytes.Equal(mustJSON(a), mustJSON(b)) {
			return path + fmt.Sprintf(" (%s vs %s)", trunc(string(mustJSON(a)), 40), trunc(string(mustJSON(b)), 40))
		}
		return ""
	}
}

func trunc(s string, n int) string {
	if len(s) > n {
		return s[:n] + "…"
	}
	return s
}

func sortedKeys(m map[string]interface{}) []string {
	ks := make([]string, 0, len(m))
	for k := range m {
		ks = append(ks, k)
	}
	sort.Strings(ks)
	return ks
}

func joinNonEmpty(sep string, parts ...string) string {
	var o []string
	for _, p := range parts {
		if p != "" {
			o = append(o, p)
		}
	}
	return strings.Join(o, sep)
}

func readJSONFile(path string, into interface{}) error {
	b, err := os.ReadFile(path)
	if err != nil {
		return err
	}
	return json.Unmarshal(b, into)
}

// allDiffs lists every differing path between two decoded JSON values (same notation as firstDiff).
func allDiffs(a, b interface{}, path string, acc []string) []string {
	switch ta := a.(type) {
	case map[string]interface{}:
		tb, ok := b.(map[string]interface{})
		if !ok {
			return append(acc, path+" (kind)")
		}
		keys := map[string]bool{}
		for k := range ta {
			keys[k] = true
		}
		for k := range tb {
			keys[k] = true
		}
		ks := make([]string, 0, len(keys))
		for k := range keys {
			ks = append(ks, k)
		}
		sort.Strings(ks)
		for _, k := range ks {
			x, okx := ta[k]
			y, oky := tb[k]
			switch {
			case !okx:
				acc = append(acc, path+"/"+k+" (only right)")
			case !oky:
				acc = append(acc, path+"/"+k+" (only left)")
			default:
				acc = allDiffs(x, y, path+"/"+k, acc)
			}
		}
		return acc
	case []interface{}:
		tb, ok := b.([]interface{})
		if !ok {
			return append(acc, path+" (kind)")
		}
		if len(ta) != len(tb) {
			return append(acc, fmt.Sprintf("%s (len %d vs %d)", path, len(ta), len(tb)))
		}
		for i := range ta {
			acc = allDiffs(ta[i], tb[i], fmt.Sprintf("%s/%d", path, i), acc)
		}
		return acc
	default:
		if !bytes.Equal(mustJSON(a), mustJSON(b)) {
			return append(acc, path+fmt.Sprintf(" (%s vs %s)", trunc(string(mustJSON(a)), 40), trunc(string(mustJSON(b)), 40)))
		}
		return acc
	}
}
