package props

// Registry maps a property id to its check.
var Registry = map[string]func(tier, replay string) int{
	"C01": RunC01,
	"C02": RunC02,
	"C03": RunC03,
	"C04": RunC04,
	"C06": RunC06,
	"C07": RunC07,
	"C08": RunC08,
	"C09": RunC09,
	"C10": RunC10,
	"C11": RunC11,
	"C05": RunC05,
	"C12": RunC12,
	"C13": RunC13,
	"C14": RunC14,
	"C15": RunC15,
	"C16": RunC16,
	"C17": RunC17,
	"C18": RunC18,
	"C19": RunC19,
}

// Worker dispatches worker-subprocess modes (generation, scanning) used by the scratch pipeline.
func Worker(args []string) int { return workerMain(args) }
