package props

import (
	"crypto/sha256"
	"encoding/hex"
	"fmt"
	"io"
	"os"
	"path/filepath"
	"runtime"
	"sort"
	"strings"
	"sync"
	"time"

	"verif/mc/evid"
)

// C11 — regeneration never destroys user code and converges: explicit-state search over the
// target directory under generate runs, user edits and spec evolution.

type c11Variant struct{ Op2, Def2 bool }

func (v c11Variant) String() string {
	return fmt.Sprintf("spec(op2=%v,def2=%v)", v.Op2, v.Def2)
}

func c11Spec(v c11Variant) J {
	d := J{"swagger": "2.0", "info": J{"title": "verif", "version": "1"}, "consumes": A{"application/json"}, "produces": A{"application/json"}, "paths": J{}, "definitions": J{}}
	at(d, "definitions")["Item"] = J{"type": "object", "required": A{"name"}, "properties": J{"name": J{"type": "string"}, "count": J{"type": "integer"}}}
	at(d, "paths", "/items")["get"] = J{"operationId": "getItems", "tags": A{"items"}, "parameters": A{J{"in": "query", "name": "limit", "type": "integer"}},
		"responses": J{"200": J{"description": "ok", "schema": J{"type": "array", "items": J{"$ref": "#/definitions/Item"}}}}}
	at(d, "paths", "/items")["post"] = J{"operationId": "addItem", "tags": A{"items"}, "parameters": A{J{"in": "body", "name": "body", "required": true, "schema": J{"$ref": "#/definitions/Item"}}},
		"responses": J{"201": J{"description": "created"}}}
	if v.Op2 {
		at(d, "paths", "/extra/{id}")["get"] = J{"operationId": "getExtra", "tags": A{"extras"}, "parameters": A{J{"in": "path", "name": "id", "required": true, "type": "string"}},
			"responses": J{"200": J{"description": "ok", "schema": J{"type": "object", "properties": J{"note": J{"type": "string"}}}}}}
	}
	if v.Def2 {
		at(d, "definitions")["Other"] = J{"type": "object", "properties": J{"flag": J{"type": "boolean"}, "item": J{"$ref": "#/definitions/Item"}}}
		at(d, "definitions", "Item", "properties")["other"] = J{"type": "string", "maxLength": 3}
	}
	return d
}

type c11Action struct {
	Name     string
	Gen      []string // swagger generate arguments (nil: not a generator run)
	Regen    bool     // explicitly requests regeneration of the configure file
	User     string   // "marker" | "files"
	ToggleOp bool
	ToggleDf bool
}

func c11Actions() []c11Action {
	return []c11Action{
		{Name: "generate server", Gen: []string{"server"}},
		{Name: "generate server --regenerate-configureapi", Gen: []string{"server", "--regenerate-configureapi"}, Regen: true},
		{Name: "generate server --exclude-main", Gen: []string{"server", "--exclude-main"}},
		{Name: "generate server --skip-models", Gen: []string{"server", "--skip-models"}},
		{Name: "generate server --skip-tag-packages", Gen: []string{"server", "--skip-tag-packages"}},
		{Name: "generate client", Gen: []string{"client"}},
		{Name: "generate model", Gen: []string{"model"}},
		{Name: "generate operation -n getItems", Gen: []string{"operation", "-n", "getItems"}},
		{Name: "generate support", Gen: []string{"support"}},
		{Name: "generate server -A TodoList -C <documented default-server.yml>", Gen: []string{"server", "-A", "TodoList", "-C", "@layout"}},
		{Name: "generate server --implementation-package", Gen: []string{"server", "--implementation-package", "example.com/impl"}},
		{Name: "user: append a marker to the configure file", User: "marker"},
		{Name: "user: add restapi/user.go and models/user.go", User: "files"},
		{Name: "spec: toggle operation getExtra", ToggleOp: true},
		{Name: "spec: toggle definition Other", ToggleDf: true},
	}
}

const c11Marker = "\n// USER EDIT: keep me\nvar userEdited = true\n"
const c11Configure = "restapi/configure_verifapp.go"

func isConfigure(p string) bool {
	return strings.HasPrefix(p, "restapi/configure_") && strings.HasSuffix(p, ".go")
}

// documentedServerLayout extracts the layout the documentation gives for `generate server -C default-server.yml`.
func documentedServerLayout() string {
	b, err := os.ReadFile(filepath.Join(RepoDir(), "docs/reference/templates/template_layout.md"))
	if err != nil {
		return ""
	}
	s := string(b)
	i := strings.Index(s, "## Server generation")
	if i < 0 {
		return ""
	}
	s = s[i:]
	j := strings.Index(s, "```yaml")
	if j < 0 {
		return ""
	}
	s = s[j+len("```yaml"):]
	k := strings.Index(s, "```")
	if k < 0 {
		return ""
	}
	return s[:k]
}

var c11UserFiles = map[string]string{
	// user code next to generated code, using the go-openapi errors package like the documented authenticators
	"restapi/user.go": "package restapi\n\nimport \"github.com/go-openapi/errors\"\n\n// user code\nfunc userHelper() error { return errors.New(401, \"no\") }\n",
	"models/user.go":  "package models\n\n// user code\nvar UserValue = 7\n",
}

// tree is a directory snapshot: relative path -> content.
type tree map[string]string

func readTree(root string) tree {
	t := tree{}
	_ = filepath.Walk(root, func(p string, info os.FileInfo, err error) error {
		if err != nil || info.IsDir() {
			return nil
		}
		rel, _ := filepath.Rel(root, p)
		b, _ := os.ReadFile(p)
		t[filepath.ToSlash(rel)] = string(b)
		return nil
	})
	return t
}

func writeTree(root string, t tree) {
	_ = os.RemoveAll(root)
	must(os.MkdirAll(root, 0o755))
	for rel, c := range t {
		p := filepath.Join(root, rel)
		must(os.MkdirAll(filepath.Dir(p), 0o755))
		must(os.WriteFile(p, []byte(c), 0o644))
	}
}

func (t tree) hash() string {
	keys := make([]string, 0, len(t))
	for k := range t {
		keys = append(keys, k)
	}
	sort.Strings(keys)
	h := sha256.New()
	for _, k := range keys {
		_, _ = io.WriteString(h, k+"\x00")
		s := sha256.Sum256([]byte(t[k]))
		h.Write(s[:])
	}
	return hex.EncodeToString(h.Sum(nil))[:16]
}

type c11State struct {
	V       c11Variant
	T       tree
	History []string
}

func (s c11State) key() string { return fmt.Sprintf("%v|%s", s.V, s.T.hash()) }

// c11Worker is one scratch module with a fixed target location, so that import paths never depend on the worker.
type c11Worker struct {
	dir string // module root
}

func newC11Worker(s *Scratch, i int) *c11Worker {
	dir := filepath.Join(s.Dir, fmt.Sprintf("w%02d", i))
	must(os.MkdirAll(dir, 0o755))
	gm, _ := os.ReadFile(filepath.Join(s.Dir, "go.mod"))
	must(os.WriteFile(filepath.Join(dir, "go.mod"), gm, 0o644))
	gs, _ := os.ReadFile(filepath.Join(s.Dir, "go.sum"))
	must(os.WriteFile(filepath.Join(dir, "go.sum"), gs, 0o644))
	return &c11Worker{dir: dir}
}

func (w *c11Worker) runGen(v c11Variant, t tree, args []string) (tree, string) {
	app := filepath.Join(w.dir, "app")
	writeTree(app, t)
	spec := filepath.Join(w.dir, "spec.json")
	must(os.WriteFile(spec, prettyJSON(c11Spec(v)), 0o644))
	full := []string{"generate", args[0], "-q", "-f", spec, "-t", app}
	named := false
	for _, a := range args[1:] {
		if a == "@layout" {
			a = filepath.Join(w.dir, "default-server.yml")
			must(os.WriteFile(a, []byte(documentedServerLayout()), 0o644))
		}
		if a == "-A" {
			named = true
		}
		full = append(full, a)
	}
	if args[0] != "model" && !named {
		full = append(full, "--name", "verifapp")
	}
	res := runCmd(app, 5*time.Minute, nil, SwaggerBin(), full...)
	if res.Err != nil {
		return nil, lastLines(res.Out, 4)
	}
	return readTree(app), ""
}

type c11Case struct {
	History []string `json:"history"`
	Action  string   `json:"action"`
	Variant string   `json:"spec_variant"`
}

func RunC11(tier, replay string) int {
	quietLogs()
	r := evid.New("C11", tier)
	depth := 3
	if tier == "thorough" {
		depth = 5
	}
	r.Rule = fmt.Sprintf("explicit-state breadth-first search from the empty target directory; state = (spec variant out of 4, full content of the target directory); 15 actions: generate server (plain, with the documented custom layout -C default-server.yml, --regenerate-configureapi, --exclude-main, --skip-models, --skip-tag-packages, --implementation-package), generate client / model / operation -n / support, user appends to the configure file, user adds own files next to generated ones, spec gains/loses an operation, spec gains/loses a definition; every transition runs the real swagger binary on a copy of the source state (fixed module-relative location); states are de-duplicated by content hash; search to depth %d or fixpoint. Invariants on every transition: I1 user-created files unchanged; I2 configure file untouched unless regeneration is requested; I3 every file a fresh run of the same command would write is byte-identical to the fresh version; I4 nothing is deleted. distinct = transition (state, action); non-trivial = generator transitions", depth)
	r.Assume = []string{"generation is deterministic per (command, spec) - C07's business; the fresh-generation cache relies on it and a divergence would surface as an I3 violation", "user files are recognised by name (restapi/user.go, models/user.go), a user-edited configure file by its marker"}
	s := NewScratch("C11")
	defer s.Close()
	nw := runtime.NumCPU()
	workers := make([]*c11Worker, nw)
	for i := range workers {
		workers[i] = newC11Worker(s, i)
	}
	actions := c11Actions()
	var replayHist []string
	if replay != "" {
		r.Replay = true
		var rep struct {
			Case c11Case `json:"case"`
		}
		if err := readJSONFile(replay, &rep); err != nil {
			fmt.Fprintln(os.Stderr, err)
			return 2
		}
		replayHist = append(append([]string{}, rep.Case.History...), rep.Case.Action)
	}

	// fresh generation cache
	var fmu sync.Mutex
	fresh := map[string]tree{}
	freshErr := map[string]string{}
	getFresh := func(w *c11Worker, a c11Action, v c11Variant) (tree, string) {
		k := a.Name + "|" + v.String()
		fmu.Lock()
		t, ok := fresh[k]
		e := freshErr[k]
		fmu.Unlock()
		if ok || e != "" {
			return t, e
		}
		t, e = w.runGen(v, tree{}, a.Gen)
		fmu.Lock()
		fresh[k], freshErr[k] = t, e
		fmu.Unlock()
		return t, e
	}

	seen := map[string]bool{}
	start := c11State{V: c11Variant{}, T: tree{}}
	seen[start.key()] = true
	frontier := []c11State{start}
	transitions := 0
	states := 1
	fixpoint := false
	var mu sync.Mutex

	check := func(w *c11Worker, st c11State, a c11Action, next tree) {
		cs := c11Case{History: st.History, Action: a.Name, Variant: st.V.String()}
		viol := func(inv, what string, pathClass string) {
			r.Violate(evid.Violation{Signature: fmt.Sprintf("%s | %s | %s", inv, a.Name, pathClass), What: fmt.Sprintf("%s after history %v then [%s] on %s: %s", inv, st.History, a.Name, st.V, what), Case: cs})
		}
		// I4 nothing deleted, I1 user files, I2 configure
		for p, c := range st.T {
			nc, ok := next[p]
			if !ok {
				viol("I4-deleted", "the run removed "+p, c11PathClass(p))
				continue
			}
			if _, isUser := c11UserFiles[p]; isUser && nc != c {
				viol("I1-user-file-modified", "the run rewrote the user's file "+p, c11PathClass(p))
			}
			if isConfigure(p) && !a.Regen && nc != c {
				viol("I2-configure-rewritten", "the existing configure file was rewritten although regeneration was not requested (user edit present: "+fmt.Sprint(strings.Contains(c, "USER EDIT"))+")", c11PathClass(p))
			}
		}
		// I3 responsible files identical to a fresh run
		ft, ferr := getFresh(w, a, st.V)
		if ferr != "" {
			return
		}
		for p, fc := range ft {
			if _, existed := st.T[p]; isConfigure(p) && existed && !a.Regen {
				continue
			}
			nc, ok := next[p]
			if !ok {
				viol("I3-missing", "a fresh run writes "+p+" but after this run it does not exist", c11PathClass(p))
			} else if nc != fc {
				viol("I3-stale", p+" differs from what a fresh run of the same command writes: "+firstDiffLine(fc, nc), c11PathClass(p))
			}
		}
	}

	for d := 1; d <= depth && len(frontier) > 0; d++ {
		type succ struct {
			st  c11State
			key string
		}
		var next []succ
		type job struct {
			st c11State
			a  c11Action
		}
		var jobs []job
		for _, st := range frontier {
			for _, a := range actions {
				if replayHist != nil && (len(st.History) >= len(replayHist) || replayHist[len(st.History)] != a.Name) {
					continue
				}
				jobs = append(jobs, job{st, a})
			}
		}
		parallel(len(jobs), nw, func(wi, ji int) {
			w := workers[wi]
			st, a := jobs[ji].st, jobs[ji].a
			var ns c11State
			ns.V = st.V
			ns.History = append(append([]string{}, st.History...), a.Name)
			outcome := "ok"
			switch {
			case a.Gen != nil:
				t, e := w.runGen(st.V, st.T, a.Gen)
				if e != "" {
					// a refusal leaves the directory as the command left it; generation errors on these
					// plain specs are not expected: report as harness attention
					mu.Lock()
					r.Count("generator_errors", 1)
					mu.Unlock()
					r.Note("generator error in [%s] after %v: %s", a.Name, st.History, trunc(e, 200))
					outcome = "generator-error"
					r.CaseKeyed(st.key()+"|"+a.Name, map[string]interface{}{"history": st.History, "action": a.Name}, true, outcome)
					return
				}
				ns.T = t
				check(w, st, a, t)
			case a.User == "marker":
				// the user edits every configure file that has not been edited yet
				ns.T = tree{}
				edited := false
				for k, v := range st.T {
					if isConfigure(k) && !strings.Contains(v, "USER EDIT") {
						v += c11Marker
						edited = true
					}
					ns.T[k] = v
				}
				if !edited {
					return // not enabled
				}
			case a.User == "files":
				if _, ok := st.T["restapi/user.go"]; ok {
					return
				}
				if _, ok := st.T["restapi/doc.go"]; !ok {
					return // the user adds files next to generated ones
				}
				ns.T = tree{}
				for k, v := range st.T {
					ns.T[k] = v
				}
				for p, c := range c11UserFiles {
					ns.T[p] = c
				}
			case a.ToggleOp:
				ns.T, ns.V = st.T, c11Variant{Op2: !st.V.Op2, Def2: st.V.Def2}
			case a.ToggleDf:
				ns.T, ns.V = st.T, c11Variant{Op2: st.V.Op2, Def2: !st.V.Def2}
			}
			k := ns.key()
			mu.Lock()
			transitions++
			if !seen[k] {
				seen[k] = true
				states++
				next = append(next, succ{ns, k})
			}
			mu.Unlock()
			r.CaseKeyed(st.key()+"|"+a.Name, map[string]interface{}{"history": st.History, "action": a.Name, "spec": st.V.String()}, a.Gen != nil, outcome)
		})
		sort.Slice(next, func(i, j int) bool {
			return strings.Join(next[i].st.History, ">") < strings.Join(next[j].st.History, ">")
		})
		frontier = frontier[:0]
		for _, n := range next {
			frontier = append(frontier, n.st)
		}
		r.Note("depth %d: %d new states, %d transitions so far", d, len(next), transitions)
		if len(next) == 0 {
			fixpoint = true
		}
	}
	r.States = states
	r.Trans = transitions
	r.Traces = transitions
	r.Extra["fixpoint_reached"] = fixpoint
	r.Extra["max_depth"] = depth
	r.Extra["frontier_left"] = len(frontier)
	r.Extra["bound_completed"] = fmt.Sprintf("all histories of length <= %d (fixpoint: %v)", depth, fixpoint)
	if !fixpoint && replay == "" {
		r.Note("search stopped at the depth bound with %d unexpanded states", len(frontier))
	}
	return r.Finish()
}

func c11PathClass(p string) string {
	d := filepath.Dir(p)
	b := filepath.Base(p)
	switch {
	case isConfigure(p):
		return "configure file"
	case strings.HasSuffix(b, "_parameters.go"), strings.HasSuffix(b, "_responses.go"), strings.HasSuffix(b, "_urlbuilder.go"):
		return d + "/*" + b[strings.LastIndex(b, "_"):]
	case strings.HasPrefix(d, "restapi/operations"):
		return "restapi/operations/**"
	case strings.HasPrefix(d, "client"):
		return "client/**"
	case strings.HasPrefix(d, "models"):
		return "models/*"
	case strings.HasPrefix(d, "cmd"):
		return "cmd/**"
	}
	return p
}

func firstDiffLine(a, b string) string {
	la, lb := strings.Split(a, "\n"), strings.Split(b, "\n")
	for i := 0; i < len(la) && i < len(lb); i++ {
		if la[i] != lb[i] {
			return fmt.Sprintf("line %d: fresh %q vs here %q", i+1, trunc(la[i], 80), trunc(lb[i], 80))
		}
	}
	return fmt.Sprintf("%d vs %d lines", len(la), len(lb))
}
