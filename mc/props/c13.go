package props

import (
	"fmt"
	"os"
	"path/filepath"
	"runtime"

	"github.com/go-swagger/go-swagger/cmd/swagger/commands/diff"

	"verif/mc/evid"
	"verif/mc/refbind"
)

// C13 — diff never reports a request-breaking change as compatible.

func c13Check(dir string, e EditPair) (outcome string, v *evid.Violation, harness string) {
	if err := validSpec(e.Old); err != nil {
		return "invalid", nil, fmt.Sprintf("%s: old spec invalid: %v", e.Name, err)
	}
	if err := validSpec(e.New); err != nil {
		return "invalid", nil, fmt.Sprintf("%s: new spec invalid: %v", e.Name, err)
	}
	if e.Witness != nil {
		vo, why, err := Accepts(e.Old, *e.Witness)
		if err != nil || vo != refbind.Reach {
			return "no-witness", nil, fmt.Sprintf("%s: witness is not accepted by the OLD spec (%v %s %v) - catalogue entry wrong", e.Name, vo, why, err)
		}
		vn, _, err := Accepts(e.New, *e.Witness)
		if err != nil || vn != refbind.Reject {
			return "no-witness", nil, fmt.Sprintf("%s: witness is not rejected by the NEW spec (%v %v) - catalogue entry wrong", e.Name, vn, err)
		}
	}
	res := safeCompare(e.Old, e.New)
	if res.Panic != "" || res.Err != nil {
		return "crash(C12)", nil, ""
	}
	breaking := 0
	for _, d := range res.Diffs {
		if d.Compatibility == diff.Breaking {
			breaking++
		}
	}
	po, pn := filepath.Join(dir, "old.json"), filepath.Join(dir, "new.json")
	writeJSONFile(po, e.Old)
	writeJSONFile(pn, e.New)
	ex := execDiff(dir, po, pn, "txt", false, "")
	sig := e.Kind + " @ " + e.Site
	switch {
	case breaking == 0:
		return "unreported", &evid.Violation{Signature: sig,
			What:     fmt.Sprintf("%s: new spec rejects a request the old one accepted, but diff reports no Breaking change (report: %v)", e.Name, diffStrings(res.Diffs)),
			Case:     e,
			Observed: map[string]interface{}{"report": diffStrings(res.Diffs), "exit_error": fmt.Sprint(ex.Err)},
			Expected: ">=1 difference classified Breaking and a non-nil error (non-zero exit)"}, ""
	case ex.Panic != "":
		return "crash(C12)", nil, ""
	case ex.Err == nil:
		return "exit0", &evid.Violation{Signature: "exit0 " + sig,
			What: fmt.Sprintf("%s: Compare reports %d Breaking change(s) but DiffCommand.Execute(txt) returned nil (exit 0)", e.Name, breaking),
			Case: e, Observed: ex.Output}, ""
	}
	return "breaking", nil, ""
}

func RunC13(tier string, replay string) int {
	quietLogs()
	r := evid.New("C13", tier)
	r.Rule = "catalogue of elementary narrowing edits (25 leaf-constraint edits x up to 14 sites: query/path/header/formData parameter, array items, nested items, body root/property depth 1-2/$ref/allOf/array items/ref'd leaf/map values; structural edits: endpoint, consumes, required parameter/body added or made required, location and collectionFormat changes, required body property added/made required at 6 depths; documented response-side breaking edits). Every request-side edit carries a witness request that the reference binder (refbind + go-openapi/validate) accepts on the old and rejects on the new spec - checked on every run. distinct = distinct (kind, site); non-trivial = witness certified or documented response-side edit"
	r.Assume = []string{"reference semantics of request acceptance: mc/refbind (DESIGN.md appendix A) and go-openapi/validate for body schemas", "response-side edits are the ones docs/reference/transform/diff.md lists as breaking; they carry no request witness"}
	dir := ScratchRoot("C13")
	defer os.RemoveAll(dir)
	if replay != "" {
		r.Replay = true
		var rep struct {
			Case EditPair `json:"case"`
		}
		if err := readJSONFile(replay, &rep); err != nil {
			fmt.Fprintln(os.Stderr, err)
			return 2
		}
		out, v, h := c13Check(dir, rep.Case)
		fmt.Println("outcome:", out, h)
		if v != nil {
			fmt.Println(v.What)
			r.Violate(*v)
		}
		return r.Finish()
	}
	edits := EditPairsWithBystanders(tier)
	r.Extra["catalogue_size"] = len(edits)
	r.Extra["bound_completed"] = map[string]string{"quick": "every edit kind at its simplest sites", "thorough": "every edit kind x every site"}[tier]
	certified := 0
	type res struct {
		out string
		v   *evid.Violation
		h   string
	}
	results := make([]res, len(edits))
	parallel(len(edits), runtime.NumCPU(), func(w, i int) {
		wdir := filepath.Join(dir, fmt.Sprint(w))
		_ = os.MkdirAll(wdir, 0o755)
		o, v, h := c13Check(wdir, edits[i])
		results[i] = res{o, v, h}
	})
	for i, e := range edits {
		out, v, h := results[i].out, results[i].v, results[i].h
		if h != "" {
			r.HarnessError("%s", h)
		}
		if v != nil {
			r.Violate(*v)
		}
		if e.Witness != nil && h == "" {
			certified++
		}
		r.CaseKeyed(e.Name, map[string]interface{}{"edit": e.Name, "witness": e.Witness, "outcome": out}, h == "", out)
	}
	r.Extra["witnesses_certified"] = certified
	r.Traces = certified
	return r.Finish()
}
