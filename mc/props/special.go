package props

import (
	"bytes"
	"encoding/json"
	"fmt"
	"regexp"
	"sort"
	"strings"
)

// The "special" model family: the shapes the C05 statement names that grammar G does not produce -
// tuples, polymorphic hierarchies reached through the base type, allOf members that are maps,
// property names that are not Go identifiers. Every definition comes with hand-enumerated VALID
// documents that contain no zero-valued optional property and no undeclared property, so that the
// round trip is demanded to be exact (JSON equality, numbers compared digit by digit).

type specialDef struct {
	Def  DefCase
	Docs []interface{}
}

func jnum(s string) json.Number { return json.Number(s) }

// SpecialDefs enumerates the family; every definition and its auxiliaries carry the prefix of the case.
func SpecialDefs() []specialDef {
	var out []specialDef
	n := 0
	add := func(desc, chain string, build func(p string) (schema J, aux map[string]J, docs []interface{}, base bool)) {
		p := fmt.Sprintf("S%03d", n)
		n++
		schema, aux, docs, base := build(p)
		name := p
		// a member of a hierarchy is tested under the name the hierarchy refers to
		for k, v := range aux {
			if v == nil {
				name = k
				delete(aux, k)
			}
		}
		d := DefCase{Name: name, Schema: schema, Aux: aux, Desc: desc, Kw: "special", Chain: chain, Exact: true, Base: base}
		out = append(out, specialDef{Def: d, Docs: docs})
	}
	str := J{"type": "string"}
	integer := J{"type": "integer"}
	boolean := J{"type": "boolean"}
	number := J{"type": "number"}
	big := jnum("9007199254740993") // not representable as float64
	ref := func(name string) J { return J{"$ref": "#/definitions/" + name} }

	// ---------------------------------------------------------------- tuples
	itemSets := []struct {
		name  string
		items A
		docs  []interface{}
	}{
		{"[string,integer]", A{str, integer}, []interface{}{A{"a", jnum("1")}, A{"b", jnum("-7")}}},
		{"[string,integer,untyped]", A{str, integer, J{}}, []interface{}{A{"a", jnum("1"), big}, A{"a", jnum("1"), J{"x": jnum("1")}}, A{"a", jnum("1"), "s"}, A{"a", jnum("1"), A{jnum("1"), jnum("2")}}, A{"a", jnum("1"), true}, A{"a", jnum("1"), jnum("1.5")}}},
		{"[boolean,object]", A{boolean, J{"type": "object"}}, []interface{}{A{true, J{"n": big, "m": J{"k": A{jnum("1")}}}}, A{true, J{"s": "t"}}}},
		{"[date,number,int32]", A{J{"type": "string", "format": "date"}, number, J{"type": "integer", "format": "int32"}}, []interface{}{A{"2020-01-02", jnum("1.5"), jnum("3")}}},
		{"[inline-object,array-of-string]", A{J{"type": "object", "required": A{"r"}, "properties": J{"r": str, "o": integer}}, J{"type": "array", "items": str}}, []interface{}{A{J{"r": "x", "o": jnum("2")}, A{"a", "b"}}, A{J{"r": "x"}, A{"a"}}}},
		{"[uuid,date-time]", A{J{"type": "string", "format": "uuid"}, J{"type": "string", "format": "date-time"}}, []interface{}{A{"a8098c1a-f86e-11da-bd1a-00112444be1e", "2020-01-02T03:04:05.000Z"}}},
	}
	for _, is := range itemSets {
		is := is
		add("tuple"+is.name, "tuple", func(p string) (J, map[string]J, []interface{}, bool) {
			return J{"type": "array", "items": is.items}, nil, is.docs, false
		})
	}
	add("tuple[ref-object,string]", "tuple", func(p string) (J, map[string]J, []interface{}, bool) {
		aux := map[string]J{p + "Obj": {"type": "object", "properties": J{"a": str, "b": integer}}}
		return J{"type": "array", "items": A{ref(p + "Obj"), str}}, aux, []interface{}{A{J{"a": "x", "b": jnum("2")}, "s"}}, false
	})
	for _, req := range []bool{true, false} {
		req := req
		add(fmt.Sprintf("object{t: tuple[boolean,untyped]} required=%v", req), "tupleprop", func(p string) (J, map[string]J, []interface{}, bool) {
			s := J{"type": "object", "properties": J{"t": J{"type": "array", "items": A{boolean, J{}}}, "q": str}}
			if req {
				s["required"] = A{"t"}
			}
			return s, nil, []interface{}{J{"t": A{true, big}, "q": "x"}, J{"t": A{true, J{"k": "v"}}}}, false
		})
	}
	add("array of tuple[string,integer]", "array>tuple", func(p string) (J, map[string]J, []interface{}, bool) {
		return J{"type": "array", "items": J{"type": "array", "items": A{str, integer}}}, nil, []interface{}{A{A{"a", jnum("1")}, A{"b", jnum("2")}}}, false
	})
	add("map of tuple[string,untyped]", "map>tuple", func(p string) (J, map[string]J, []interface{}, bool) {
		return J{"type": "object", "additionalProperties": J{"type": "array", "items": A{str, J{}}}}, nil, []interface{}{J{"k": A{"a", big}, "l": A{"b", J{"x": "y"}}}}, false
	})

	// ---------------------------------------------------------------- property names
	add("object with property names that are not Go identifiers", "names", func(p string) (J, map[string]J, []interface{}, bool) {
		props := J{"a-b": str, "1x": integer, "with space": boolean, "x.y": number, "type": str, "go": str, "ünï": str, "A": str, "_u": str, "func": integer, "$dollar": str, "@at": str}
		doc := J{"a-b": "s", "1x": jnum("3"), "with space": true, "x.y": jnum("1.5"), "type": "t", "go": "g", "ünï": "u", "A": "a", "_u": "v", "func": jnum("4"), "$dollar": "d", "@at": "e"}
		return J{"type": "object", "properties": props}, nil, []interface{}{doc}, false
	})
	add("odd property names next to additionalProperties:true", "names+addl", func(p string) (J, map[string]J, []interface{}, bool) {
		return J{"type": "object", "properties": J{"a-b": str, "1x": integer}, "additionalProperties": true}, nil,
			[]interface{}{J{"a-b": "s", "1x": jnum("3"), "extra one": J{"deep": A{jnum("1"), big}}, "x": "y"}}, false
	})
	add("odd property names next to additionalProperties schema", "names+addl", func(p string) (J, map[string]J, []interface{}, bool) {
		return J{"type": "object", "properties": J{"a-b": str}, "additionalProperties": integer}, nil,
			[]interface{}{J{"a-b": "s", "k 1": jnum("3"), "k-2": jnum("4")}}, false
	})

	// ---------------------------------------------------------------- allOf members
	add("allOf[map of string, object]", "allOf>map", func(p string) (J, map[string]J, []interface{}, bool) {
		return J{"allOf": A{J{"type": "object", "additionalProperties": str}, J{"type": "object", "properties": J{"p": str}}}}, nil,
			[]interface{}{J{"p": "x", "k": "v"}, J{"k": "v", "l": "w"}}, false
	})
	add("allOf[$ref object, $ref object, inline]", "allOf>refs", func(p string) (J, map[string]J, []interface{}, bool) {
		aux := map[string]J{p + "A": {"type": "object", "required": A{"a"}, "properties": J{"a": str}}, p + "B": {"type": "object", "properties": J{"b": integer}}}
		return J{"allOf": A{ref(p + "A"), ref(p + "B"), J{"type": "object", "properties": J{"c": boolean}}}}, aux,
			[]interface{}{J{"a": "x", "b": jnum("2"), "c": true}, J{"a": "x"}}, false
	})
	add("allOf[$ref object with additionalProperties, inline]", "allOf>ref+addl", func(p string) (J, map[string]J, []interface{}, bool) {
		aux := map[string]J{p + "A": {"type": "object", "properties": J{"a": str}, "additionalProperties": true}}
		return J{"allOf": A{ref(p + "A"), J{"type": "object", "properties": J{"c": boolean}}}}, aux,
			[]interface{}{J{"a": "x", "c": true}, J{"a": "x", "c": true, "k": jnum("3")}}, false
	})
	add("property whose schema is allOf[$ref object, inline]", "prop>allOf", func(p string) (J, map[string]J, []interface{}, bool) {
		aux := map[string]J{p + "A": {"type": "object", "properties": J{"a": str}}}
		return J{"type": "object", "properties": J{"w": J{"allOf": A{ref(p + "A"), J{"type": "object", "properties": J{"c": boolean}}}}}}, aux,
			[]interface{}{J{"w": J{"a": "x", "c": true}}}, false
	})

	// ---------------------------------------------------------------- polymorphism
	// hierarchy: Pet(kind) <- Dog{bark, friend: Pet}, Cat[x-class feline]{lives required}, Puppy <- Dog
	hier := func(p string) map[string]J {
		return map[string]J{
			p + "Pet": {"type": "object", "discriminator": "kind", "required": A{"kind"}, "properties": J{"kind": str, "name": str}},
			p + "Dog": {"allOf": A{ref(p + "Pet"), J{"type": "object", "properties": J{"bark": boolean, "friend": ref(p + "Pet")}}}},
			p + "Cat": {"x-class": "feline" + p, "allOf": A{ref(p + "Pet"), J{"type": "object", "required": A{"lives"}, "properties": J{"lives": integer, "born": J{"type": "string", "format": "date"}}}}},
			p + "Puppy": {"allOf": A{ref(p + "Dog"), J{"type": "object", "properties": J{"weeks": integer}}}},
		}
	}
	dog := func(p string) J { return J{"kind": p + "Dog", "name": "rex", "bark": true} }
	cat := func(p string) J { return J{"kind": "feline" + p, "name": "tom", "lives": jnum("9"), "born": "2020-01-02"} }
	puppy := func(p string) J { return J{"kind": p + "Puppy", "name": "pup", "bark": true, "weeks": jnum("6")} }
	dogWithFriend := func(p string) J {
		d := dog(p)
		d["friend"] = cat(p)
		return d
	}
	// without removes the member under test from the auxiliaries and marks its name (nil entry)
	without := func(h map[string]J, name string) map[string]J {
		o := map[string]J{}
		for k, v := range h {
			if k != name {
				o[k] = v
			}
		}
		o[name] = nil
		return o
	}
	add("base type decoded through its factory", "poly>base", func(p string) (J, map[string]J, []interface{}, bool) {
		h := hier(p)
		return h[p+"Pet"], without(h, p+"Pet"), []interface{}{dog(p), cat(p), puppy(p), dogWithFriend(p)}, true
	})
	add("subtype decoded directly", "poly>subtype", func(p string) (J, map[string]J, []interface{}, bool) {
		h := hier(p)
		return h[p+"Dog"], without(h, p+"Dog"), []interface{}{dog(p), dogWithFriend(p)}, false
	})
	add("x-class subtype decoded directly", "poly>subtype", func(p string) (J, map[string]J, []interface{}, bool) {
		h := hier(p)
		return h[p+"Cat"], without(h, p+"Cat"), []interface{}{cat(p)}, false
	})
	add("subtype of subtype decoded directly", "poly>subtype", func(p string) (J, map[string]J, []interface{}, bool) {
		h := hier(p)
		return h[p+"Puppy"], without(h, p+"Puppy"), []interface{}{puppy(p)}, false
	})
	for _, req := range []bool{true, false} {
		req := req
		add(fmt.Sprintf("object{pet: base} required=%v", req), "poly>prop", func(p string) (J, map[string]J, []interface{}, bool) {
			s := J{"type": "object", "properties": J{"pet": ref(p + "Pet"), "n": integer}}
			if req {
				s["required"] = A{"pet"}
			}
			return s, hier(p), []interface{}{J{"pet": dog(p), "n": jnum("1")}, J{"pet": cat(p)}, J{"pet": puppy(p)}, J{"pet": dogWithFriend(p)}}, false
		})
	}
	add("object{pets: array of base}", "poly>arrayprop", func(p string) (J, map[string]J, []interface{}, bool) {
		return J{"type": "object", "properties": J{"pets": J{"type": "array", "items": ref(p + "Pet")}}}, hier(p),
			[]interface{}{J{"pets": A{cat(p), dog(p)}}, J{"pets": A{puppy(p)}}}, false
	})
	add("object{byName: map of base}", "poly>mapprop", func(p string) (J, map[string]J, []interface{}, bool) {
		return J{"type": "object", "properties": J{"byName": J{"type": "object", "additionalProperties": ref(p + "Pet")}}}, hier(p),
			[]interface{}{J{"byName": J{"k": dog(p), "l": cat(p)}}}, false
	})
	add("top-level array of base", "poly>array", func(p string) (J, map[string]J, []interface{}, bool) {
		return J{"type": "array", "items": ref(p + "Pet")}, hier(p), []interface{}{A{cat(p), dog(p)}}, false
	})
	add("top-level map of base", "poly>map", func(p string) (J, map[string]J, []interface{}, bool) {
		return J{"type": "object", "additionalProperties": ref(p + "Pet")}, hier(p), []interface{}{J{"k": dog(p), "l": cat(p)}}, false
	})
	add("object with declared properties and additionalProperties of base", "poly>props+addl", func(p string) (J, map[string]J, []interface{}, bool) {
		return J{"type": "object", "properties": J{"q": str}, "additionalProperties": ref(p + "Pet")}, hier(p), []interface{}{J{"q": "x", "k": dog(p)}}, false
	})
	add("tuple[base, string]", "poly>tuple", func(p string) (J, map[string]J, []interface{}, bool) {
		return J{"type": "array", "items": A{ref(p + "Pet"), str}}, hier(p), []interface{}{A{cat(p), "s"}}, false
	})
	add("allOf[$ref plain, {pet: base}]", "poly>allOf", func(p string) (J, map[string]J, []interface{}, bool) {
		aux := hier(p)
		aux[p+"Plain"] = J{"type": "object", "properties": J{"a": str}}
		return J{"allOf": A{ref(p + "Plain"), J{"type": "object", "properties": J{"pet": ref(p + "Pet")}}}}, aux, []interface{}{J{"a": "x", "pet": dog(p)}}, false
	})
	sort.SliceStable(out, func(i, j int) bool { return out[i].Def.Name < out[j].Def.Name })
	return out
}

// specialDocsOf indexes the documents by definition name (json.Number leaves rendered through JSON).
func specialDocsOf(sp []specialDef) func(DefCase) []interface{} {
	m := map[string][]interface{}{}
	for _, s := range sp {
		m[s.Def.Name] = s.Docs
	}
	return func(d DefCase) []interface{} { return m[d.Name] }
}

// exactJSONEqual compares two JSON texts value by value, numbers by their literal text.
func exactJSONEqual(a, b []byte) (bool, string) {
	da, db := decodeNumber(a), decodeNumber(b)
	ca, _ := json.Marshal(da)
	cb, _ := json.Marshal(db)
	if bytes.Equal(ca, cb) {
		return true, ""
	}
	return false, firstDiff(da, db, "")
}

func decodeNumber(b []byte) interface{} {
	dec := json.NewDecoder(bytes.NewReader(b))
	dec.UseNumber()
	var v interface{}
	_ = dec.Decode(&v)
	return v
}

var rxCasePrefix = regexp.MustCompile(`S\d{3}`)

// specialDocTag names what a special-family document exercises: the subtypes it contains (discriminator
// values without the case prefix) and whether it carries a number float64 cannot represent.
func specialDocTag(doc interface{}) string {
	kinds := map[string]bool{}
	big := false
	var walk func(v interface{})
	walk = func(v interface{}) {
		switch t := v.(type) {
		case map[string]interface{}:
			for k, x := range t {
				if k == "kind" {
					if s, ok := x.(string); ok {
						kinds[rxCasePrefix.ReplaceAllString(s, "")] = true
					}
				}
				walk(x)
			}
		case []interface{}:
			for _, x := range t {
				walk(x)
			}
		case json.Number:
			if len(t.String()) > 15 {
				big = true
			}
		}
	}
	walk(doc)
	var ks []string
	for k := range kinds {
		ks = append(ks, k)
	}
	sort.Strings(ks)
	tag := strings.Join(ks, "+")
	if big {
		tag += "bignum"
	}
	if tag == "" {
		tag = "plain"
	}
	return tag
}
