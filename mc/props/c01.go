package props

import (
	"fmt"
	"net/url"
	"os"
	"path/filepath"
	"regexp"
	"runtime"
	"strings"
	"time"

	"verif/mc/evid"
	"verif/mc/xplore"
)

// C01 — generated code always builds.

type c01Case struct {
	Name   string   `json:"name"`
	Class  string   `json:"class"` // position-or-shape class for signatures
	Doc    J        `json:"doc"`
	Target string   `json:"target"` // model | server | client | cli
	Args   []string `json:"args,omitempty"`
	// Strict: a generation error on this (plain, documented) document is itself a violation
	Strict bool `json:"strict,omitempty"`
	// RefusalOK: a generation error is an accepted outcome (names that cannot be given distinct Go names: C08 asks
	// for an error there); only "exits 0 and does not build" is a violation
	RefusalOK bool `json:"refusal_ok,omitempty"`
	// Ops: ids of packed operations (for bisection)
	Ops []OpCase `json:"-"`
}

func c01Names(tier string) []string {
	names := []string{
		"plain", "Mixed_Case", "lower", "UPPER", "9lives", "with space", "kebab-case", "snake_case", "dot.ted", "a/b", "plus+", "hash#tag", "dollar$", "at@sign",
		"quote'd", "dq\"uote", "back`tick", "back\\slash", "éclair", "日本語x", "Ǆungla", "x😀",
		"type", "func", "range", "map", "chan", "select", "default", "interface", "package", "return", "var", "go", "import", "struct",
		"string", "error", "nil", "len", "int", "true", "bool", "any", "new", "make", "append",
		"Validate", "MarshalJSON", "ContextValidate", "Payload", "Context", "HTTPClient", "timeout", "params", "res", "err", "o", "m", "r", "rw", "i", "data", "body", "result", "v",
		"models", "operations", "restapi", "runtime", "strfmt", "swag", "errors", "validate", "http", "fmt", "json", "time", "client", "cli", "cmd", "context", "io", "os", "url", "middleware",
		"a__b", "_lead", "trail_", "x-1", "v1.2", "ID", "Id", "URL", "httpURL", "Params", "Reader", "Writer", "Client", "OK", "Default", "Body", "Error",
	}
	if tier != "thorough" {
		quick := []string{"plain", "9lives", "with space", "kebab-case", "dot.ted", "a/b", "dq\"uote", "back`tick", "back\\slash", "éclair", "日本語x",
			"type", "func", "range", "default", "string", "error", "nil", "len", "Validate", "Payload", "params", "o", "models", "errors", "runtime", "client", "ID", "Params", "Error", "Default", "Body",
			// identifiers of the templates in another case than the templates write them
			"timeout", "Timeout", "context", "Context", "HTTPClient", "httpClient"}
		return quick
	}
	// thorough: the identifiers and package names the templates use, in lower / Title / UPPER case as well
	ident := []string{"Validate", "MarshalJSON", "ContextValidate", "Payload", "Context", "HTTPClient", "timeout", "params", "res", "err", "data", "body", "result",
		"models", "operations", "restapi", "runtime", "strfmt", "swag", "errors", "validate", "http", "fmt", "json", "time", "client", "context", "middleware", "Params", "Reader", "Writer", "Client", "Default", "Body", "Error"}
	seen := map[string]bool{}
	for _, n := range names {
		seen[n] = true
	}
	for _, v := range c01CaseVariants(ident) {
		if !seen[v] {
			seen[v] = true
			names = append(names, v)
		}
	}
	return names
}

func refTo(def string) string {
	e := strings.ReplaceAll(strings.ReplaceAll(def, "~", "~0"), "/", "~1")
	return "#/definitions/" + url.PathEscape(e)
}

var rxUnsafeInPath = regexp.MustCompile(`[/{}?#%\\ "]`)

// nameCarrier places name n simultaneously in every name position.
func nameCarrier(n string) J {
	d := J{"swagger": "2.0", "info": J{"title": "verif", "version": "1"}, "consumes": A{"application/json"}, "produces": A{"application/json"}, "paths": J{}, "definitions": J{}}
	at(d, "definitions")[n] = J{"type": "object", "required": A{n}, "properties": J{
		n:       J{"type": "string", "minLength": 1},
		"other": J{"type": "string", "enum": A{n, "b"}},
		"list":  J{"type": "array", "items": J{"type": "object", "properties": J{n: J{"type": "integer"}}}},
	}}
	pathName := n
	if rxUnsafeInPath.MatchString(n) {
		pathName = "id"
	}
	op := J{"operationId": n, "tags": A{n},
		"parameters": A{
			J{"in": "path", "name": pathName, "required": true, "type": "string"},
			J{"in": "query", "name": n, "type": "integer", "maximum": 5},
			J{"in": "header", "name": n, "type": "string", "enum": A{n, "x"}},
			J{"in": "body", "name": n + "Body", "schema": J{"$ref": refTo(n)}},
		},
		"responses": J{
			"200":     J{"description": "ok", "schema": J{"$ref": refTo(n)}, "headers": J{n: J{"type": "string"}}},
			"default": J{"description": "err", "schema": J{"type": "object", "properties": J{n: J{"type": "string"}}}},
		},
		"security": A{J{n: A{}}},
	}
	at(d, "paths", "/things/{"+pathName+"}")["post"] = op
	at(d, "paths", "/form")["post"] = J{"operationId": n + "Form", "tags": A{n, "second"}, "consumes": A{"application/x-www-form-urlencoded"},
		"parameters": A{J{"in": "formData", "name": n, "type": "string"}}, "responses": J{"200": J{"description": "ok"}}}
	d["securityDefinitions"] = J{n: J{"type": "apiKey", "in": "header", "name": "X-Key"}}
	d["tags"] = A{J{"name": n, "description": "tag"}}
	return d
}

func c01ResponseOps() []OpCase {
	pet := J{"type": "object", "required": A{"name"}, "properties": J{"name": J{"type": "string"}, "tags": J{"type": "array", "items": J{"type": "string"}}}}
	defs := J{"Pet": pet}
	mk := func(desc string, method string, responses J, produces []string, params ...J) OpCase {
		return OpCase{Method: method, Params: params, Desc: "responses " + desc, Class: "responses | " + desc, Defs: defs, Cons: nil, ExtraOp: J{"responses": responses, "produces": produces}}
	}
	return []OpCase{
		mk("none-but-default", "get", J{"default": J{"description": "d"}}, nil),
		mk("model", "get", J{"200": J{"description": "ok", "schema": J{"$ref": "#/definitions/Pet"}}}, nil),
		mk("array-of-models", "get", J{"200": J{"description": "ok", "schema": J{"type": "array", "items": J{"$ref": "#/definitions/Pet"}}}}, nil),
		mk("map-of-models", "get", J{"200": J{"description": "ok", "schema": J{"type": "object", "additionalProperties": J{"$ref": "#/definitions/Pet"}}}}, nil),
		mk("primitive", "get", J{"200": J{"description": "ok", "schema": J{"type": "string"}}}, nil),
		mk("inline-object", "get", J{"200": J{"description": "ok", "schema": J{"type": "object", "properties": J{"a": J{"type": "string"}, "n": J{"type": "object", "properties": J{"b": J{"type": "integer"}}}}}}}, nil),
		mk("headers", "get", J{"200": J{"description": "ok", "headers": J{"X-Rate": J{"type": "integer", "format": "int32"}, "X-List": J{"type": "array", "collectionFormat": "pipes", "items": J{"type": "string"}}, "X-When": J{"type": "string", "format": "date-time"}, "X-Flag": J{"type": "boolean", "default": true}}}}, nil),
		mk("several-2xx", "post", J{"200": J{"description": "ok", "schema": J{"$ref": "#/definitions/Pet"}}, "201": J{"description": "created"}, "204": J{"description": "none"}}, nil),
		mk("errors+default", "get", J{"200": J{"description": "ok"}, "404": J{"description": "nf", "schema": J{"type": "object", "properties": J{"msg": J{"type": "string"}}}}, "422": J{"description": "inv", "schema": J{"$ref": "#/definitions/Pet"}}, "default": J{"description": "d", "schema": J{"type": "string"}}}, nil),
		mk("streaming-200", "get", J{"200": J{"description": "file", "schema": J{"type": "file"}}}, []string{"application/octet-stream"}),
		mk("streaming-non2xx", "get", J{"200": J{"description": "ok"}, "500": J{"description": "file", "schema": J{"type": "file"}}}, []string{"application/octet-stream", "application/json"}),
		mk("streaming-default", "get", J{"default": J{"description": "file", "schema": J{"type": "file"}}}, []string{"application/octet-stream"}),
		mk("untyped-schema", "get", J{"200": J{"description": "ok", "schema": J{}}}, nil),
		mk("text-plain", "get", J{"200": J{"description": "ok", "schema": J{"type": "string"}}}, []string{"text/plain"}),
		mk("xml+json", "get", J{"200": J{"description": "ok", "schema": J{"$ref": "#/definitions/Pet"}}}, []string{"application/xml", "application/json"}),
		mk("file-upload", "post", J{"200": J{"description": "ok"}}, nil, J{"in": "formData", "name": "up", "type": "file", "required": true}, J{"in": "formData", "name": "note", "type": "string"}),
		mk("same-name-two-locations", "get", J{"200": J{"description": "ok"}}, nil, J{"in": "query", "name": "user_id", "type": "string"}, J{"in": "header", "name": "user_id", "type": "string"}),
		mk("same-name-two-locations-simple", "get", J{"200": J{"description": "ok"}}, nil, J{"in": "query", "name": "id", "type": "string"}, J{"in": "header", "name": "id", "type": "string"}),
		mk("names-differ-by-punctuation", "get", J{"200": J{"description": "ok"}}, nil, J{"in": "query", "name": "user-id", "type": "string"}, J{"in": "query", "name": "user_id", "type": "string"}),
		mk("enum-values-mangle-alike", "get", J{"200": J{"description": "ok", "schema": J{"type": "object", "properties": J{"e": J{"type": "string", "enum": A{"a-b", "a_b", "A B"}}}}}}, nil),
		mk("props-differ-by-punctuation", "get", J{"200": J{"description": "ok", "schema": J{"type": "object", "properties": J{"a-b": J{"type": "string"}, "a_b": J{"type": "string"}}}}}, nil),
		mk("two-hop-ref-response", "get", J{"200": J{"description": "ok", "schema": J{"type": "object", "properties": J{"p": J{"$ref": "#/definitions/Alias1"}}}}}, nil),
	}
}

var rxIdent = regexp.MustCompile(`[A-Za-z_][A-Za-z0-9_.]*`)

// compilerClass reduces a compiler message to its class.
var rxFilePos = regexp.MustCompile(`\S+\.go:\d+(:\d+)?:\s*`)

func compilerClass(line string) string {
	// "... c0001/models/x.go:12:3: message": keep what follows the last file position
	msg := line
	if loc := rxFilePos.FindAllStringIndex(line, -1); len(loc) > 0 {
		msg = line[loc[len(loc)-1][1]:]
	}
	for _, k := range []string{"invalid constant type", "field and method with the same name", "use of package", "redeclared", "undefined", "mismatched types", "cannot use", "imported and not used", "declared and not used", "syntax error", "invalid operation", "already declared", "missing return", "not enough arguments", "too many arguments", "has no field or method", "is not a type", "import cycle", "expected", "cannot convert", "invalid character", "duplicate", "not used", "cannot refer", "no required module", "is not in std", "invalid argument", "cannot assign", "unknown field", "illegal", "non-name", "assignment mismatch"} {
		if strings.Contains(msg, k) {
			return k
		}
	}
	msg = rxIdent.ReplaceAllString(msg, "X")
	return trunc(msg, 40)
}

func firstErrorLine(out string) string {
	for _, l := range strings.Split(out, "\n") {
		l = strings.TrimSpace(l)
		if l == "" || strings.HasPrefix(l, "#") || strings.HasPrefix(l, "go: ") {
			continue
		}
		return l
	}
	return firstLine(out)
}

func genAndBuild(s *Scratch, idx int, c c01Case) (genErr, buildErr string) {
	dir := filepath.Join(s.Dir, fmt.Sprintf("k%04d", idx))
	_ = os.RemoveAll(dir)
	must(os.MkdirAll(dir, 0o755))
	sp := filepath.Join(dir, "spec.json")
	must(os.WriteFile(sp, prettyJSON(c.Doc), 0o644))
	args := append([]string{}, c.Args...)
	if c.Target != "model" {
		args = append(args, "--name", "verifapp")
	}
	res := s.Generate(c.Target, sp, dir, args...)
	if res.Err != nil {
		if res.TimedOut {
			return "TIMEOUT", ""
		}
		return lastLines(res.Out, 5), ""
	}
	b := runCmd(s.Dir, 20*time.Minute, nil, "go", "build", "./"+filepath.Base(dir)+"/...")
	if b.Err != nil {
		return "", b.Out
	}
	_ = os.RemoveAll(dir)
	return "", ""
}

func RunC01(tier, replay string) int {
	quietLogs()
	r := evid.New("C01", tier)
	k, depth := modelBounds(tier)
	opBound := 2
	if tier == "thorough" {
		opBound = 3
	}
	r.Rule = fmt.Sprintf("(1) every definition of grammar G (k<=%d, depth<=%d) through `generate model`; (2) every single-parameter operation with <=%d deviating dimensions, 16 body shapes, 22 response/consumes/produces/collision shapes through `generate server`, `generate client`, `generate cli`; (3) a name alphabet (case mixes, digits, spaces, punctuation, quotes, backticks, non-ASCII, Go keywords, predeclared identifiers, identifiers and package names the templates use themselves) placed simultaneously in every name position (definition, property, enum value, parameter in each location, operationId, tag, response header, security scheme) of a carrier spec x {server, client (+ model, cli thorough)}; (4) flatten modes and option switches on a fixed rich spec. Oracle: the real command exits 0 => `go build ./...` of what it wrote succeeds; on plain documents a generation error is a violation too. distinct = (document, target, options); non-trivial = generation succeeded and the result was compiled", k, depth, opBound)
	r.Assume = []string{"documented exclusions are kept out of the alphabet: expand x polymorphism, base types in tuples/maps, additionalItems without --skip-validation", "for hostile names a refusal (non-zero exit) is an accepted outcome; it is counted"}
	s := NewScratch("C01")
	defer s.Close()
	installCustomPkg(s) // the external types of the x-go-type family

	var cases []c01Case
	var modelSingles []c01Case
	if replay != "" {
		r.Replay = true
		var rep struct {
			Case c01Case `json:"case"`
		}
		if err := readJSONFile(replay, &rep); err != nil {
			fmt.Fprintln(os.Stderr, err)
			return 2
		}
		cases = []c01Case{rep.Case}
	} else {
		// ---- (1) model universe: reuse the packed pipeline; dropped definitions are C01 violations
		defs, _ := EnumerateDefs(k, depth, "D")
		{
			// the same universes C02 / C05 / C18 run on: a definition their pipelines drop (generation or
			// compile failure) is C01's to report, so C01 has to generate every one of them
			minStack := 2
			if depth >= 2 {
				minStack = 3
			}
			defs = append(defs, EnumerateStackDefs("K", minStack, 3)...)
			defs = append(defs, DeepRefDefs("R")...)
		}
		if o := os.Getenv("VERIF_C01_ONLY"); o != "" && o != "universe" { // "universe": only the model universe
			defs = nil
		}
		for _, sp := range SpecialDefs() { // tuples, polymorphism, odd property names, allOf of maps
			defs = append(defs, sp.Def)
		}
		defs = append(defs, c01EnumPairDefs()...)
		for _, d := range c01NamePropDefs(c01Names("quick")) {
			// like the carriers of (3): a name go-openapi/spec itself cannot re-serialise (a quote or backslash in a
			// property name breaks OrderSchemaItems.MarshalJSON) is unloadable input, not a generator case
			if err := validSpec(modelsDoc([]DefCase{d})); err != nil {
				r.Count("property_names_invalid_as_spec(skipped)", 1)
				continue
			}
			defs = append(defs, d)
		}
		ms := NewScratch("C01m")
		run, err := BuildModels(ms, defs, 50)
		if err != nil {
			r.HarnessError("model universe: %v", err)
		} else {
			byName := map[string]DefCase{}
			for _, d := range defs {
				byName[d.Name] = d
			}
			for _, d := range defs {
				if _, dropped := run.Dropped[d.Name]; dropped {
					// decided below by generating and building the definition alone (3 runs)
					modelSingles = append(modelSingles, c01Case{Name: "definition {" + d.Desc + "}", Class: "model:" + d.Chain, Doc: modelsDoc([]DefCase{d}), Target: "model", Strict: true})
					continue
				}
				r.CaseKeyed("model|"+d.Desc, map[string]string{"target": "model", "definition": d.Desc}, true, "builds")
			}
			for _, e := range run.GenErrors {
				r.HarnessError("%s", e)
			}
		}
		ms.Close()
		// ---- (2) operations universe
		gen, _ := xplore.Collect(xplore.Options{MaxDeviations: opBound}, genParamOp)
		ops := append(gen, c03SpecialOps()...)
		ops = append(ops, c01ResponseOps()...)
		for i := range ops {
			ops[i].ID = fmt.Sprintf("o%04d", i)
		}
		per := 30
		addPacks := func(ops []OpCase, targets ...string) {
			for lo := 0; lo < len(ops); lo += per {
				hi := lo + per
				if hi > len(ops) {
					hi = len(ops)
				}
				doc := packOpsFull(ops[lo:hi])
				for _, t := range targets {
					cases = append(cases, c01Case{Name: fmt.Sprintf("ops %s..%s", ops[lo].ID, ops[hi-1].ID), Class: "operations", Doc: doc, Target: t, Strict: true, Ops: ops[lo:hi]})
				}
			}
		}
		if tier == "thorough" {
			addPacks(ops, "server", "client", "cli")
		} else {
			addPacks(ops, "server", "client")
			// quick tier: the cli target gets the operations with <=1 deviating dimension plus all special shapes
			gen1, _ := xplore.Collect(xplore.Options{MaxDeviations: 1}, genParamOp)
			cliOps := append(gen1, c03SpecialOps()...)
			cliOps = append(cliOps, c01ResponseOps()...)
			for i := range cliOps {
				cliOps[i].ID = fmt.Sprintf("q%04d", i)
			}
			addPacks(cliOps, "cli")
		}
		// ---- (9) one name in one parameter position at a time, packed
		{
			nops := c01NameOps(c01Names("quick")) // the quick name list in both tiers (the thorough list goes through the carriers)
			for i := range nops {
				nops[i].ID = fmt.Sprintf("n%04d", i)
			}
			addPacks(nops, "server", "client")
		}
		// ---- (3) names
		nameTargets := []string{"server", "client"}
		if tier == "thorough" {
			nameTargets = []string{"server", "client", "model", "cli"}
		}
		for _, n := range c01Names(tier) {
			d := nameCarrier(n)
			if err := validSpec(d); err != nil {
				r.Count("name_carriers_invalid_as_spec(skipped)", 1)
				r.Note("name %q: carrier is not a valid spec: %v", n, err)
				continue
			}
			for _, t := range nameTargets {
				cases = append(cases, c01Case{Name: fmt.Sprintf("name %q", n), Class: "name:" + nameClass(n), Doc: d, Target: t})
			}
		}
		// ---- (4) flatten modes and switches on a rich fixed spec
		rich := richSpec()
		type sw struct {
			name string
			args []string
		}
		switches := []sw{{"full", []string{"--with-flatten=full"}}, {"expand", []string{"--with-expand"}}, {"skip-tag-packages", []string{"--skip-tag-packages"}}, {"strict-responders", []string{"--strict-responders"}},
			{"struct-tags", []string{"--struct-tags", "yaml", "--struct-tags", "db", "--struct-tags", "example", "--struct-tags", "description"}}, {"principal", []string{"--principal", "models.Principal"}},
			{"strict-additional-properties", []string{"--strict-additional-properties"}},
			{"keep-spec-order", []string{"--keep-spec-order"}}, {"exclude-spec", []string{"--exclude-spec"}}, {"regenerate-configureapi", []string{"--regenerate-configureapi"}}}
		for _, w := range switches {
			for _, t := range []string{"server", "client", "cli", "model"} {
				if t == "model" && (strings.HasPrefix(w.name, "principal") || w.name == "skip-tag-packages" || w.name == "strict-responders" || w.name == "exclude-spec" || w.name == "regenerate-configureapi") {
					continue
				}
				if (t == "client" || t == "cli") && (w.name == "strict-responders" || w.name == "exclude-spec" || w.name == "regenerate-configureapi" || w.name == "principal-is-interface") {
					continue
				}
				cases = append(cases, c01Case{Name: "rich spec " + w.name, Class: "switch:" + w.name, Doc: rich, Target: t, Args: w.args, Strict: true})
			}
		}
		// ---- (5) security definition sets: every scheme kind, several schemes of one kind, schemes sharing
		// the parameter name across locations, alternatives combining them
		for _, sv := range c01SecurityVariants() {
			d := richSpec()
			d["securityDefinitions"] = sv.defs
			d["security"] = sv.global
			for _, pi := range at(d, "paths") {
				for _, op := range pi.(J) {
					if o, ok := op.(J); ok {
						delete(o, "security")
					}
				}
			}
			if err := validSpec(d); err != nil {
				r.HarnessError("security variant %s is not a valid spec: %v", sv.name, err)
				continue
			}
			for _, t := range []string{"server", "client", "cli"} {
				cases = append(cases, c01Case{Name: "security " + sv.name, Class: "security:" + sv.name, Doc: d, Target: t, Strict: true})
			}
		}
		// ---- (6) pre-processing modes over the operation universe (the model universe: below, thorough)
		{
			gen1, _ := xplore.Collect(xplore.Options{MaxDeviations: 1}, genParamOp)
			modeOps := gen1
			modeOps = append(append([]OpCase{}, modeOps...), c03SpecialOps()...)
			modeOps = append(modeOps, c01ResponseOps()...)
			for i := range modeOps {
				modeOps[i].ID = fmt.Sprintf("f%04d", i)
			}
			modeTargets := []string{"server"}
			for _, mode := range [][]string{{"--with-flatten=full"}, {"--with-expand"}} {
				for lo := 0; lo < len(modeOps); lo += per {
					hi := lo + per
					if hi > len(modeOps) {
						hi = len(modeOps)
					}
					doc := packOpsFull(modeOps[lo:hi])
					for _, t := range modeTargets {
						cases = append(cases, c01Case{Name: fmt.Sprintf("ops %s..%s %s", modeOps[lo].ID, modeOps[hi-1].ID, mode[0]), Class: "operations " + mode[0], Doc: doc, Target: t, Args: mode, Strict: true, Ops: modeOps[lo:hi]})
					}
				}
			}
		}
		// ---- (10) the specs of C08 (colliding names in every position, multi-operation shapes): C08 leaves "exits 0
		// but does not build" to this check, so this check has to build them
		c08Targets := []string{"server"} // the target C08 itself generates and leaves to this check
		for _, cc := range c08Cases(tier) {
			for _, t := range c08Targets {
				cases = append(cases, c01Case{Name: "C08 spec: " + cc.Name, Class: "c08:" + cc.Class + ":" + cc.Name, Doc: cc.Doc, Target: t, Args: cc.Args, RefusalOK: true})
			}
		}
		// ---- (7) documented vendor extensions (x-go-type family and the struct-tag / ordering / nullability extensions)
		cases = append(cases, c01ExtCases(tier)...)
		if tier == "thorough" {
			// pairs of switches on the server target
			for i := range switches {
				for j := i + 1; j < len(switches); j++ {
					if strings.HasPrefix(switches[i].name, "principal") && strings.HasPrefix(switches[j].name, "principal") {
						continue
					}
					if (switches[i].name == "full" && switches[j].name == "expand") || strings.Contains(switches[i].name+switches[j].name, "expand") && strings.Contains(switches[i].name+switches[j].name, "full") {
						continue
					}
					cases = append(cases, c01Case{Name: "rich spec " + switches[i].name + "+" + switches[j].name, Class: "switch-pair", Doc: rich, Target: "server", Args: append(append([]string{}, switches[i].args...), switches[j].args...), Strict: true})
				}
			}
		}
	}
	if only := os.Getenv("VERIF_C01_ONLY"); only != "" && replay == "" { // development aid: one case class only
		var keep []c01Case
		for _, c := range cases {
			if strings.Contains(c.Class, only) {
				keep = append(keep, c)
			}
		}
		cases = keep
		if only != "universe" {
			modelSingles = nil
		}
		r.Prop = "C01dev"
	}
	r.Extra["generate_and_build_cases"] = len(cases)
	r.Extra["bound_completed"] = fmt.Sprintf("G: k<=%d, depth<=%d; operations: <=%d deviating dimensions; names: %d; switches one at a time (pairs in thorough)", k, depth, opBound, len(c01Names(tier)))
	type result struct{ genErr, buildErr, flaky string }
	results := make([]result, len(cases))
	parallel(len(cases), runtime.NumCPU()/2, func(_, i int) {
		g, b := genAndBuild(s, i, cases[i])
		results[i] = result{genErr: g, buildErr: b}
	})
	// packed operation cases that fail are bisected: each operation alone
	var singles []c01Case
	for i, c := range cases {
		res := results[i]
		if (res.genErr != "" || res.buildErr != "") && len(c.Ops) > 1 {
			for _, op := range c.Ops {
				cl := op.Class
				if len(c.Args) > 0 {
					cl = strings.Join(c.Args, " ") + " | " + op.Class
				}
				singles = append(singles, c01Case{Name: "op {" + op.Desc + "}", Class: cl, Doc: packOpsFull([]OpCase{op}), Target: c.Target, Args: c.Args, Strict: true})
			}
		}
	}
	singles = append(singles, modelSingles...)
	sres := make([]result, len(singles))
	parallel(len(singles), runtime.NumCPU()/2, func(_, i int) {
		g, b := genAndBuild(s, 100000+i, singles[i])
		sres[i] = result{genErr: g, buildErr: b}
	})
	// believe nothing until replayed: every failing case is re-run twice more; a failure that does not
	// reproduce identically every time is reported under one coarse "nondeterministic" signature
	confirm := func(idx int, c c01Case, first result) result {
		if first.genErr == "" && first.buildErr == "" {
			return first
		}
		cls := func(x result) string {
			if x.genErr != "" {
				return "gen:" + compilerClass(x.genErr)
			}
			if x.buildErr != "" {
				return "build:" + compilerClass(firstErrorLine(x.buildErr))
			}
			return "ok"
		}
		for k := 0; k < 2; k++ {
			g, b := genAndBuild(s, 200000+idx*2+k, c)
			if again := (result{genErr: g, buildErr: b}); cls(again) != cls(first) {
				first.flaky = fmt.Sprintf("run 1: %s; run %d: %s", cls(first), k+2, cls(again))
				if first.genErr == "" && first.buildErr == "" {
					first = again
				}
				return first
			}
		}
		return first
	}
	parallel(len(cases), runtime.NumCPU()/2, func(_, i int) {
		if len(cases[i].Ops) > 1 {
			return
		}
		results[i] = confirm(i, cases[i], results[i])
	})
	parallel(len(singles), runtime.NumCPU()/2, func(_, i int) {
		sres[i] = confirm(50000+i, singles[i], sres[i])
	})
	report := func(c c01Case, res result) {
		key := c.Name + "|" + c.Target + "|" + strings.Join(c.Args, " ")
		sample := map[string]interface{}{"case": c.Name, "target": c.Target, "args": c.Args}
		switch {
		case res.flaky != "":
			r.Violate(evid.Violation{Signature: fmt.Sprintf("%s | nondeterministic outcome", c.Target), What: fmt.Sprintf("generate %s %v on [%s] does not give the same result on every run (%s): sometimes the generated code does not build", c.Target, c.Args, c.Name, res.flaky), Case: c, Observed: trunc(res.genErr+res.buildErr, 1500)})
			r.CaseKeyed(key, sample, true, "VIOLATION:nondeterministic")
		case res.genErr != "" && c.RefusalOK:
			r.Count("refused(colliding names: an error is what C08 asks for)", 1)
			r.CaseKeyed(key, sample, true, "refused(accepted)")
		case res.genErr != "" && c.Strict:
			r.Violate(evid.Violation{Signature: fmt.Sprintf("%s | generate-fails | %s | %s", c.Target, sigClass(c.Class), compilerClass(res.genErr)), What: fmt.Sprintf("generate %s %v fails on a plain valid document [%s]: %s", c.Target, c.Args, c.Name, trunc(res.genErr, 300)), Case: c, Observed: res.genErr})
			r.CaseKeyed(key, sample, false, "VIOLATION:generate-fails")
		case res.genErr != "":
			// names: the carrier passed validate.Spec, so the document is valid Swagger and the property
			// demands success for any name with a letter; a refusal is a violation as well
			r.Count("refused(non-zero exit on a valid document with hostile names)", 1)
			r.Violate(evid.Violation{Signature: fmt.Sprintf("%s | name-refused | %s | %s", c.Target, sigClass(c.Class), compilerClass(res.genErr)), What: fmt.Sprintf("generate %s %v fails on a valid document [%s]: %s", c.Target, c.Args, c.Name, trunc(lastLines(res.genErr, 3), 300)), Case: c, Observed: trunc(res.genErr, 1500)})
			r.CaseKeyed(key, sample, true, "VIOLATION:name-refused")
		case res.buildErr != "":
			fl := firstErrorLine(res.buildErr)
			r.Violate(evid.Violation{Signature: fmt.Sprintf("%s | build | %s | %s", c.Target, sigClass(c.Class), compilerClass(fl)), What: fmt.Sprintf("generate %s %v exits 0 on [%s] but the result does not build: %s", c.Target, c.Args, c.Name, trunc(fl, 300)), Case: c, Observed: trunc(res.buildErr, 2000)})
			r.CaseKeyed(key, sample, true, "VIOLATION:build")
		default:
			r.CaseKeyed(key, sample, true, "builds")
		}
	}
	for i, c := range cases {
		res := results[i]
		if (res.genErr != "" || res.buildErr != "") && len(c.Ops) > 1 {
			continue // reported through its single-operation cases
		}
		report(c, res)
	}
	anySingle := map[string]bool{}
	for i, c := range singles {
		if sres[i].genErr != "" || sres[i].buildErr != "" {
			anySingle[c.Target] = true
		}
		report(c, sres[i])
	}
	// a pack that fails while every operation builds alone is an interaction: report the pack
	for i, c := range cases {
		res := results[i]
		if (res.genErr != "" || res.buildErr != "") && len(c.Ops) > 1 && !anySingle[c.Target] {
			c.Ops = nil
			report(c, res)
		}
	}
	return r.Finish()
}

type c01SecVariant struct {
	name   string
	defs   J
	global A
}

func c01SecurityVariants() []c01SecVariant {
	key := func(in, name string) J { return J{"type": "apiKey", "in": in, "name": name} }
	oauth := func(flow string) J {
		o := J{"type": "oauth2", "flow": flow, "scopes": J{"read": "r", "write": "w"}}
		if flow == "implicit" || flow == "accessCode" {
			o["authorizationUrl"] = "https://example.com/a"
		}
		if flow == "password" || flow == "application" || flow == "accessCode" {
			o["tokenUrl"] = "https://example.com/t"
		}
		return o
	}
	req := func(names ...string) J {
		o := J{}
		for _, n := range names {
			o[n] = A{}
		}
		return o
	}
	return []c01SecVariant{
		{"none", J{}, A{}},
		{"two-keys-same-param-header+query", J{"k1": key("header", "api_key"), "k2": key("query", "api_key")}, A{req("k1", "k2")}},
		{"two-keys-same-location", J{"k1": key("header", "X-A"), "k2": key("header", "X-B")}, A{req("k1"), req("k2")}},
		{"two-keys-names-differ-by-case", J{"key": key("header", "X-Key"), "Key": key("query", "key")}, A{req("key", "Key")}},
		{"two-basic", J{"b1": J{"type": "basic"}, "b2": J{"type": "basic"}}, A{req("b1"), req("b2")}},
		{"four-oauth-flows", J{"o1": oauth("implicit"), "o2": oauth("password"), "o3": oauth("application"), "o4": oauth("accessCode")}, A{J{"o1": A{"read"}}, J{"o2": A{"read", "write"}, "o3": A{}}, J{"o4": A{"write"}}}},
		{"all-kinds-and", J{"b": J{"type": "basic"}, "k": key("query", "k"), "o": oauth("password")}, A{J{"b": A{}, "k": A{}, "o": A{"read"}}}},
		{"unused-definitions", J{"b": J{"type": "basic"}, "k": key("header", "X-K")}, A{}},
	}
}

func sigClass(class string) string {
	if strings.HasPrefix(class, "model:") {
		return class
	}
	// operation classes are "loc | type | container | flags | val": keep loc, type-class and container
	if strings.HasPrefix(class, "--") { // pre-processing mode prefix
		if i := strings.Index(class, " | "); i > 0 {
			return class[:i] + "," + sigClass(class[i+3:])
		}
	}
	parts := strings.Split(class, " | ")
	if len(parts) >= 3 {
		return strings.Join(parts[:3], ",")
	}
	return class
}

func nameClass(n string) string {
	switch {
	case regexp.MustCompile(`^[a-z]+$`).MatchString(n):
		return "word " + n
	default:
		return n
	}
}

// packOpsFull is packOps with response overrides (ExtraOp) honoured.
func packOpsFull(ops []OpCase) J {
	doc := packOps(ops, len(ops))[0]
	for _, op := range ops {
		if op.ExtraOp == nil {
			continue
		}
		o := at(doc, "paths", "/"+op.ID+op.Path, op.Method)
		if rs, ok := op.ExtraOp["responses"]; ok {
			o["responses"] = clone(rs)
		}
		if pr, ok := op.ExtraOp["produces"].([]string); ok && len(pr) > 0 {
			l := A{}
			for _, p := range pr {
				l = append(l, p)
			}
			o["produces"] = l
		}
		for _, p := range op.Params {
			if p["type"] == "file" {
				o["consumes"] = A{"multipart/form-data"}
			}
		}
	}
	at(doc, "definitions")["Alias2"] = J{"type": "string", "minLength": 1}
	at(doc, "definitions")["Alias1"] = J{"$ref": "#/definitions/Alias2"}
	return doc
}

// richSpec exercises most generator features at once (used for flatten modes and switches).
func richSpec() J {
	d := J{"swagger": "2.0", "info": J{"title": "rich api", "version": "1.0", "description": "desc"}, "host": "example.com", "basePath": "/v1", "schemes": A{"http", "https"},
		"consumes": A{"application/json"}, "produces": A{"application/json"}, "paths": J{}, "definitions": J{}}
	d["securityDefinitions"] = J{"key": J{"type": "apiKey", "in": "header", "name": "X-Key"}, "basic": J{"type": "basic"}, "oauth": J{"type": "oauth2", "flow": "password", "tokenUrl": "https://example.com/t", "scopes": J{"read": "r", "write": "w"}}}
	d["security"] = A{J{"key": A{}}}
	at(d, "definitions")["Principal"] = J{"type": "object", "properties": J{"name": J{"type": "string"}}}
	at(d, "definitions")["Pet"] = J{"type": "object", "required": A{"name", "kind"}, "properties": J{
		"name": J{"type": "string", "minLength": 1, "maxLength": 20, "description": "the name", "example": "rex"},
		"kind": J{"type": "string", "enum": A{"cat", "dog"}}, "age": J{"type": "integer", "format": "int32", "minimum": 0},
		"tags": J{"type": "array", "uniqueItems": true, "items": J{"$ref": "#/definitions/Tag"}}, "owner": J{"$ref": "#/definitions/Owner"},
		"meta": J{"type": "object", "additionalProperties": J{"type": "string"}}, "born": J{"type": "string", "format": "date-time"},
		"inline": J{"type": "object", "properties": J{"a": J{"type": "number", "multipleOf": 0.5}, "b": J{"type": "array", "items": J{"type": "object", "properties": J{"c": J{"type": "boolean"}}}}}},
	}}
	at(d, "definitions")["Tag"] = J{"type": "object", "properties": J{"label": J{"type": "string"}}}
	at(d, "definitions")["Owner"] = J{"allOf": A{J{"$ref": "#/definitions/Person"}, J{"type": "object", "properties": J{"since": J{"type": "string", "format": "date"}}}}}
	at(d, "definitions")["Person"] = J{"type": "object", "properties": J{"first": J{"type": "string"}, "friends": J{"type": "array", "items": J{"$ref": "#/definitions/Person"}}}}
	at(d, "definitions")["Names"] = J{"type": "array", "items": J{"type": "string"}, "minItems": 1}
	at(d, "definitions")["Dict"] = J{"type": "object", "additionalProperties": J{"$ref": "#/definitions/Pet"}}
	at(d, "definitions")["Error"] = J{"type": "object", "required": A{"code"}, "properties": J{"code": J{"type": "integer"}, "message": J{"type": "string"}}}
	at(d, "paths", "/pets")["get"] = J{"operationId": "listPets", "tags": A{"pets"}, "parameters": A{
		J{"in": "query", "name": "limit", "type": "integer", "format": "int32", "default": 20, "maximum": 100},
		J{"in": "query", "name": "tags", "type": "array", "collectionFormat": "multi", "items": J{"type": "string"}},
		J{"in": "header", "name": "X-Request-Id", "type": "string", "format": "uuid"}},
		"responses": J{"200": J{"description": "ok", "schema": J{"type": "array", "items": J{"$ref": "#/definitions/Pet"}}, "headers": J{"X-Total": J{"type": "integer"}}}, "default": J{"description": "err", "schema": J{"$ref": "#/definitions/Error"}}}}
	at(d, "paths", "/pets")["post"] = J{"operationId": "createPet", "tags": A{"pets"}, "security": A{J{"oauth": A{"write"}}, J{"basic": A{}, "key": A{}}}, "parameters": A{J{"in": "body", "name": "body", "required": true, "schema": J{"$ref": "#/definitions/Pet"}}},
		"responses": J{"201": J{"description": "created", "schema": J{"$ref": "#/definitions/Pet"}}, "422": J{"description": "invalid", "schema": J{"$ref": "#/definitions/Error"}}}}
	at(d, "paths", "/pets/{id}")["get"] = J{"operationId": "getPet", "tags": A{"pets"}, "security": A{}, "parameters": A{J{"in": "path", "name": "id", "required": true, "type": "integer", "format": "int64"}},
		"responses": J{"200": J{"description": "ok", "schema": J{"$ref": "#/definitions/Pet"}}, "404": J{"description": "nf"}}}
	at(d, "paths", "/pets/{id}/photo")["post"] = J{"operationId": "uploadPhoto", "tags": A{"pets", "media"}, "consumes": A{"multipart/form-data"}, "parameters": A{J{"in": "path", "name": "id", "required": true, "type": "integer"}, J{"in": "formData", "name": "file", "type": "file", "required": true}, J{"in": "formData", "name": "caption", "type": "string"}},
		"responses": J{"200": J{"description": "ok", "schema": J{"type": "object", "properties": J{"url": J{"type": "string"}}}}}}
	at(d, "paths", "/dict")["put"] = J{"operationId": "putDict", "parameters": A{J{"in": "body", "name": "body", "schema": J{"$ref": "#/definitions/Dict"}}}, "responses": J{"204": J{"description": "none"}}}
	at(d, "paths", "/names")["get"] = J{"operationId": "getNames", "tags": A{"misc"}, "produces": A{"application/json", "text/plain"}, "responses": J{"200": J{"description": "ok", "schema": J{"$ref": "#/definitions/Names"}}}}
	return d
}
