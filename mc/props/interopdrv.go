package props

import (
	"bytes"
	"encoding/json"
	"fmt"
	"os"
	"path/filepath"
	"runtime"
	"strings"
	"time"
)

// InteropReq is one client call against the generated server of the same spec.
type InteropReq struct {
	Op      string                     `json:"op"`     // operation id
	Params  map[string]json.RawMessage `json:"params"` // Go field name (case-insensitive) -> JSON value
	Respond *RespondSpec               `json:"respond,omitempty"`
}

// InteropRes is what happened on both sides.
type InteropRes struct {
	// server side
	Reached      string                     `json:"reached,omitempty"`
	ServerParams map[string]json.RawMessage `json:"server_params,omitempty"`
	// client side
	CallErr    string            `json:"call_err,omitempty"` // reflection / setup problem (harness)
	Results    []InteropValue    `json:"results,omitempty"`  // non-nil non-error results
	Error      *InteropValue     `json:"error,omitempty"`    // the returned error, if any
	Panic      string            `json:"panic,omitempty"`
	WireStatus int               `json:"wire_status,omitempty"`
	SetErrors  map[string]string `json:"set_errors,omitempty"` // params the driver could not set
}

// InteropValue describes a typed result or error returned by the generated client.
type InteropValue struct {
	Type     string                     `json:"type"`
	Fields   map[string]json.RawMessage `json:"fields,omitempty"`
	Code     int                        `json:"code,omitempty"`
	IsAPIErr bool                       `json:"is_api_error,omitempty"`
	Text     string                     `json:"text,omitempty"`
}

// interopDriverTmpl = the server driver's installation code + a client half.
func interopDriverSource(importBase string) string {
	src := fmt.Sprintf(serverDriverTmpl, importBase, "Verifapp")
	// replace main and add the client half
	i := strings.Index(src, "func main() {")
	src = src[:i] + interopMain
	src = strings.Replace(src, "import (", "import (\n\tgenclient \""+importBase+"/client\"\n\thttptransport \"github.com/go-openapi/runtime/client\"\n\t\"github.com/go-openapi/strfmt\"\n\t\"sort\"\n\t\"time\"\n", 1)
	return src
}

const interopMain = `
type interopReq struct {
	Op      string                     ` + "`json:\"op\"`" + `
	Params  map[string]json.RawMessage ` + "`json:\"params\"`" + `
	Respond *respondSpec               ` + "`json:\"respond,omitempty\"`" + `
}

type interopValue struct {
	Type     string                     ` + "`json:\"type\"`" + `
	Fields   map[string]json.RawMessage ` + "`json:\"fields,omitempty\"`" + `
	Code     int                        ` + "`json:\"code,omitempty\"`" + `
	IsAPIErr bool                       ` + "`json:\"is_api_error,omitempty\"`" + `
	Text     string                     ` + "`json:\"text,omitempty\"`" + `
}

type interopRes struct {
	Reached      string                     ` + "`json:\"reached,omitempty\"`" + `
	ServerParams map[string]json.RawMessage ` + "`json:\"server_params,omitempty\"`" + `
	CallErr      string                     ` + "`json:\"call_err,omitempty\"`" + `
	Results      []interopValue             ` + "`json:\"results,omitempty\"`" + `
	Error        *interopValue              ` + "`json:\"error,omitempty\"`" + `
	Panic        string                     ` + "`json:\"panic,omitempty\"`" + `
	WireStatus   int                        ` + "`json:\"wire_status,omitempty\"`" + `
	SetErrors    map[string]string          ` + "`json:\"set_errors,omitempty\"`" + `
}

type rtFunc func(*http.Request) (*http.Response, error)

func (f rtFunc) RoundTrip(r *http.Request) (*http.Response, error) { return f(r) }

func lowerAlnum(s string) string {
	var b strings.Builder
	for _, r := range strings.ToLower(s) {
		if (r >= 'a' && r <= 'z') || (r >= '0' && r <= '9') {
			b.WriteRune(r)
		}
	}
	return b.String()
}

func describe(v reflect.Value) interopValue {
	out := interopValue{Fields: map[string]json.RawMessage{}}
	t := v.Type()
	for t.Kind() == reflect.Ptr {
		t = t.Elem()
	}
	out.Type = t.Name()
	if ae, ok := v.Interface().(*runtime.APIError); ok {
		out.IsAPIErr = true
		out.Code = ae.Code
		return out
	}
	if m := v.MethodByName("Code"); m.IsValid() && m.Type().NumIn() == 0 && m.Type().NumOut() == 1 && m.Type().Out(0).Kind() == reflect.Int {
		out.Code = int(m.Call(nil)[0].Int())
	}
	e := v
	for e.Kind() == reflect.Ptr && !e.IsNil() {
		e = e.Elem()
	}
	if e.Kind() == reflect.Struct {
		for i := 0; i < e.NumField(); i++ {
			f := e.Type().Field(i)
			if !f.IsExported() {
				continue
			}
			b, err := json.Marshal(e.Field(i).Interface())
			if err != nil {
				b, _ = json.Marshal("<unmarshalable>")
			}
			out.Fields[f.Name] = b
		}
	}
	if err, ok := v.Interface().(error); ok {
		out.Text = err.Error()
	}
	return out
}

var errIface = reflect.TypeOf((*error)(nil)).Elem()
var namedRCType = reflect.TypeOf((*runtime.NamedReadCloser)(nil)).Elem()

func call(cli interface{}, r interopReq) (res interopRes) {
	defer func() {
		if p := recover(); p != nil {
			res.Panic = fmt.Sprint(p) + "\n" + string(debug.Stack())
		}
	}()
	// find the method on one of the facade's services
	cv := reflect.ValueOf(cli).Elem()
	var method reflect.Value
	for i := 0; i < cv.NumField() && !method.IsValid(); i++ {
		f := cv.Field(i)
		if !cv.Type().Field(i).IsExported() || (f.Kind() != reflect.Interface && f.Kind() != reflect.Ptr) || f.IsNil() {
			continue
		}
		for j := 0; j < f.NumMethod(); j++ {
			if lowerAlnum(f.Type().Method(j).Name) == lowerAlnum(r.Op) {
				method = f.Method(j)
			}
		}
	}
	if !method.IsValid() {
		res.CallErr = "no client method for operation " + r.Op
		return
	}
	mt := method.Type()
	params := reflect.New(mt.In(0).Elem())
	if init := params.MethodByName("SetDefaults"); init.IsValid() && init.Type().NumIn() == 0 {
		init.Call(nil)
	}
	if st := params.MethodByName("SetTimeout"); st.IsValid() {
		st.Call([]reflect.Value{reflect.ValueOf(30 * time.Second)})
	}
	names := make([]string, 0, len(r.Params))
	for k := range r.Params {
		names = append(names, k)
	}
	sort.Strings(names)
	for _, k := range names {
		raw := r.Params[k]
		var field reflect.Value
		pe := params.Elem()
		for i := 0; i < pe.NumField(); i++ {
			if pe.Type().Field(i).IsExported() && lowerAlnum(pe.Type().Field(i).Name) == lowerAlnum(k) {
				field = pe.Field(i)
			}
		}
		if !field.IsValid() {
			if res.SetErrors == nil {
				res.SetErrors = map[string]string{}
			}
			res.SetErrors[k] = "no such field"
			continue
		}
		if field.Type() == namedRCType {
			var st struct {
				Stream string ` + "`json:\"stream\"`" + `
			}
			_ = json.Unmarshal(raw, &st)
			field.Set(reflect.ValueOf(runtime.NamedReader("upload.bin", strings.NewReader(st.Stream))))
			continue
		}
		if err := json.Unmarshal(raw, field.Addr().Interface()); err != nil {
			if res.SetErrors == nil {
				res.SetErrors = map[string]string{}
			}
			res.SetErrors[k] = err.Error()
		}
	}
	args := []reflect.Value{params}
	for i := 1; i < mt.NumIn(); i++ {
		if mt.IsVariadic() && i == mt.NumIn()-1 {
			break
		}
		args = append(args, reflect.Zero(mt.In(i))) // auth info writer / writer: nil
	}
	curReq = &httpReq{Respond: r.Respond}
	rec := &httpRes{}
	cur = rec
	outs := method.Call(args)
	cur, curReq = nil, nil
	res.Reached = rec.Reached
	res.ServerParams = rec.Params
	for _, o := range outs {
		if o.Type().Implements(errIface) && o.Type() == errIface {
			if !o.IsNil() {
				d := describe(o.Elem())
				res.Error = &d
			}
			continue
		}
		if (o.Kind() == reflect.Ptr || o.Kind() == reflect.Interface) && o.IsNil() {
			continue
		}
		res.Results = append(res.Results, describe(o))
	}
	return
}

func main() {
	swaggerSpec, err := loads.Embedded(restapi.SwaggerJSON, restapi.FlatSwaggerJSON)
	if err != nil {
		fmt.Fprintln(os.Stderr, "driver: embedded spec:", err)
		os.Exit(4)
	}
	api := operations.NewVerifappAPI(swaggerSpec)
	api.Logger = func(string, ...interface{}) {}
	install(api)
	if err := api.Validate(); err != nil {
		fmt.Fprintln(os.Stderr, "driver: api.Validate:", err)
		os.Exit(5)
	}
	h := api.Serve(nil)
	lastStatus := 0
	tr := httptransport.New("localhost", "/", []string{"http"})
	tr.Transport = rtFunc(func(req *http.Request) (*http.Response, error) {
		rec := httptest.NewRecorder()
		h.ServeHTTP(rec, req)
		lastStatus = rec.Code
		return rec.Result(), nil
	})
	cli := genclient.New(tr, strfmt.Default)
	var reqs []interopReq
	if err := json.NewDecoder(bufio.NewReaderSize(os.Stdin, 1<<20)).Decode(&reqs); err != nil {
		fmt.Fprintln(os.Stderr, "driver: bad input:", err)
		os.Exit(3)
	}
	out := make([]interopRes, len(reqs))
	for i, r := range reqs {
		lastStatus = 0
		out[i] = call(cli, r)
		out[i].WireStatus = lastStatus
	}
	w := bufio.NewWriterSize(os.Stdout, 1<<20)
	_ = json.NewEncoder(w).Encode(out)
	w.Flush()
}
`

// InteropCase is one spec with server and client generated side by side.
type InteropCase struct {
	Dir      string
	GenErr   string
	BuildErr string
	Bin      string
}

// GenInterop generates server and client of each document into the same directory and builds the driver.
func GenInterop(s *Scratch, docs []J) []*InteropCase {
	cases := make([]*InteropCase, len(docs))
	parallel(len(docs), runtime.NumCPU(), func(_, i int) {
		c := &InteropCase{Dir: caseDir(i)}
		cases[i] = c
		dir := filepath.Join(s.Dir, c.Dir)
		_ = os.RemoveAll(dir)
		must(os.MkdirAll(dir, 0o755))
		sp := filepath.Join(dir, "spec.json")
		must(os.WriteFile(sp, prettyJSON(docs[i]), 0o644))
		if res := s.Generate("server", sp, dir, "--name", "verifapp", "--exclude-main"); res.Err != nil {
			c.GenErr = "server: " + lastLines(res.Out, 4)
			return
		}
		if res := s.Generate("client", sp, dir, "--name", "verifapp"); res.Err != nil {
			c.GenErr = "client: " + lastLines(res.Out, 4)
			return
		}
		drv := filepath.Join(dir, "drv")
		must(os.MkdirAll(drv, 0o755))
		must(os.WriteFile(filepath.Join(drv, "main.go"), []byte(interopDriverSource(scratchModule+"/"+c.Dir)), 0o644))
	})
	bin := filepath.Join(s.Dir, "bin")
	must(os.MkdirAll(bin, 0o755))
	parallel(len(cases), runtime.NumCPU(), func(_, i int) {
		c := cases[i]
		if c.GenErr != "" {
			return
		}
		out := filepath.Join(bin, c.Dir)
		r := runCmd(s.Dir, 20*time.Minute, nil, "go", "build", "-o", out, "./"+c.Dir+"/drv")
		if r.Err != nil {
			c.BuildErr = lastLines(r.Out, 8)
			return
		}
		c.Bin = out
	})
	return cases
}

// Exec runs the calls.
func (c *InteropCase) Exec(s *Scratch, reqs []InteropReq) ([]InteropRes, error) {
	in, _ := json.Marshal(reqs)
	out, stderr, err, timedOut := runCmdSplit(s.Dir, 10*time.Minute, in, c.Bin)
	if timedOut {
		return nil, fmt.Errorf("interop driver %s timed out", c.Dir)
	}
	if err != nil {
		return nil, fmt.Errorf("interop driver %s failed: %v: %s", c.Dir, err, lastLines(stderr, 10))
	}
	var res []InteropRes
	if err := json.NewDecoder(bytes.NewReader(out)).Decode(&res); err != nil {
		return nil, err
	}
	if len(res) != len(reqs) {
		return nil, fmt.Errorf("interop driver %s: %d results for %d requests", c.Dir, len(res), len(reqs))
	}
	return res, nil
}
