package props

import (
	"fmt"
	"sort"
	"net/http"
	"net/url"
	"strings"

	"github.com/go-openapi/spec"
	"github.com/go-openapi/strfmt"
	"github.com/go-openapi/validate"

	"verif/mc/refbind"
)

// The catalogue of elementary edits used by C13 (narrowings, with a machine-checked witness) and
// by C14/C15 (as additional pairs).

// Witness is a request the old spec accepts and the new spec rejects.
type Witness struct {
	Method string          `json:"method"`
	Path   string          `json:"path"` // path template of the operation
	Req    refbind.Request `json:"request"`
}

// EditPair is one (old,new) pair.
type EditPair struct {
	Name     string   `json:"name"`
	Kind     string   `json:"kind"`
	Site     string   `json:"site"`
	Old      J        `json:"old"`
	New      J        `json:"new"`
	Witness  *Witness `json:"witness,omitempty"`
	Response bool     `json:"response_side,omitempty"` // documented client-breaking response edits (no request witness)
	Neutral  bool     `json:"neutral,omitempty"`       // not a narrowing: used by C14/C15 only
}

// leafEdit narrows a leaf schema. W is a JSON value valid for Old and invalid for New.
type leafEdit struct {
	Kind     string
	Old, New J
	W        interface{}
	NoBody   bool // the reference validator does not enforce this narrowing in JSON bodies: no witness there
}

func leafEdits() []leafEdit {
	return []leafEdit{
		{"type string->integer", J{"type": "string"}, J{"type": "integer"}, "abc", false},
		{"format int64->int32", J{"type": "integer", "format": "int64"}, J{"type": "integer", "format": "int32"}, int64(1099511627776), true},
		{"type number->integer", J{"type": "number"}, J{"type": "integer"}, 1.5, false},
		{"enum added", J{"type": "string"}, J{"type": "string", "enum": A{"a", "b"}}, "z", false},
		{"enum value removed", J{"type": "string", "enum": A{"a", "b", "c"}}, J{"type": "string", "enum": A{"a", "b"}}, "c", false},
		{"integer enum value removed", J{"type": "integer", "enum": A{1, 2, 3}}, J{"type": "integer", "enum": A{1, 2}}, int64(3), false},
		{"maximum added", J{"type": "integer"}, J{"type": "integer", "maximum": 5}, int64(9), false},
		{"maximum lowered", J{"type": "integer", "maximum": 9}, J{"type": "integer", "maximum": 5}, int64(7), false},
		{"maximum made exclusive", J{"type": "integer", "maximum": 5}, J{"type": "integer", "maximum": 5, "exclusiveMaximum": true}, int64(5), false},
		{"minimum added", J{"type": "integer"}, J{"type": "integer", "minimum": 5}, int64(1), false},
		{"minimum raised", J{"type": "integer", "minimum": 1}, J{"type": "integer", "minimum": 5}, int64(3), false},
		{"minimum made exclusive", J{"type": "integer", "minimum": 5}, J{"type": "integer", "minimum": 5, "exclusiveMinimum": true}, int64(5), false},
		{"number maximum lowered", J{"type": "number", "maximum": 9.5}, J{"type": "number", "maximum": 5.5}, 7.5, false},
		{"maxLength added", J{"type": "string"}, J{"type": "string", "maxLength": 2}, "aaaa", false},
		{"maxLength lowered", J{"type": "string", "maxLength": 10}, J{"type": "string", "maxLength": 2}, "aaaa", false},
		{"minLength added", J{"type": "string"}, J{"type": "string", "minLength": 3}, "a", false},
		{"minLength raised", J{"type": "string", "minLength": 1}, J{"type": "string", "minLength": 3}, "aa", false},
		{"pattern added", J{"type": "string"}, J{"type": "string", "pattern": "^a+$"}, "b", false},
		{"pattern changed", J{"type": "string", "pattern": "^[ab]+$"}, J{"type": "string", "pattern": "^a+$"}, "b", false},
		{"number maximum lowered by <1", J{"type": "number", "maximum": 1}, J{"type": "number", "maximum": 0.5}, 0.75, false},
		{"number minimum raised by <1", J{"type": "number", "minimum": 0.25}, J{"type": "number", "minimum": 0.75}, 0.5, false},
		{"number maximum lowered to integer", J{"type": "number", "maximum": 99.5}, J{"type": "number", "maximum": 99}, 99.25, false},
		{"multipleOf added", J{"type": "integer"}, J{"type": "integer", "multipleOf": 2}, int64(3), false},
		{"maxItems added", J{"type": "array", "items": J{"type": "integer"}}, J{"type": "array", "items": J{"type": "integer"}, "maxItems": 2}, A{int64(1), int64(2), int64(3)}, false},
		{"maxItems lowered", J{"type": "array", "items": J{"type": "integer"}, "maxItems": 5}, J{"type": "array", "items": J{"type": "integer"}, "maxItems": 2}, A{int64(1), int64(2), int64(3)}, false},
		{"minItems added", J{"type": "array", "items": J{"type": "integer"}}, J{"type": "array", "items": J{"type": "integer"}, "minItems": 2}, A{int64(1)}, false},
		{"minItems raised", J{"type": "array", "items": J{"type": "integer"}, "minItems": 1}, J{"type": "array", "items": J{"type": "integer"}, "minItems": 3}, A{int64(1), int64(2)}, false},
		{"uniqueItems added", J{"type": "array", "items": J{"type": "integer"}}, J{"type": "array", "items": J{"type": "integer"}, "uniqueItems": true}, A{int64(1), int64(1)}, false},
		// two keywords of one bound change together (exclusivity flips while the bound moves)
		{"maximum lowered and made inclusive", J{"type": "integer", "maximum": 9, "exclusiveMaximum": true}, J{"type": "integer", "maximum": 5, "exclusiveMaximum": false}, int64(7), false},
		{"maximum lowered and made exclusive", J{"type": "integer", "maximum": 9}, J{"type": "integer", "maximum": 5, "exclusiveMaximum": true}, int64(5), false},
		{"minimum raised and made inclusive", J{"type": "integer", "minimum": 1, "exclusiveMinimum": true}, J{"type": "integer", "minimum": 5}, int64(3), false},
		{"minimum raised and made exclusive", J{"type": "integer", "minimum": 1}, J{"type": "integer", "minimum": 5, "exclusiveMinimum": true}, int64(5), false},
		{"both bounds narrowed", J{"type": "integer", "minimum": 1, "maximum": 9}, J{"type": "integer", "minimum": 3, "maximum": 7}, int64(8), false},
	}
}

func editBase() J {
	d := baseDoc()
	delete(d, "definitions")
	return d
}

func rawOf(v interface{}) string {
	switch t := v.(type) {
	case string:
		return t
	case []interface{}:
		parts := make([]string, len(t))
		for i, x := range t {
			parts[i] = rawOf(x)
		}
		return strings.Join(parts, ",")
	default:
		return fmt.Sprint(v)
	}
}

func merge(a J, extra J) J {
	o := cloneJ(a)
	for k, v := range extra {
		o[k] = clone(v)
	}
	return o
}

// leafSite embeds a leaf schema somewhere in a request and builds the witness carrying value w.
type leafSite struct {
	Name      string
	ArrayLeaf bool // site accepts array leaves
	OnlyArr   bool
	Build     func(leaf J) J
	BuildOld  func(leaf, old J) J // optional: sites that also need the unedited leaf
	Wit       func(w interface{}) Witness
}

func leafSites() []leafSite {
	bodyReq := func(v interface{}) refbind.Request {
		return refbind.Request{HasBody: true, Body: string(mustJSON(v)), ContentType: "application/json"}
	}
	bodySite := func(name string, wrapSchema func(leaf J) (schema J, defs J), wrapVal func(w interface{}) interface{}) leafSite {
		return leafSite{Name: name, ArrayLeaf: true,
			Build: func(leaf J) J {
				d := editBase()
				schema, defs := wrapSchema(leaf)
				if defs != nil {
					d["definitions"] = defs
				}
				addParam(d, "/p", "post", J{"in": "body", "name": "body", "required": true, "schema": schema})
				return d
			},
			Wit: func(w interface{}) Witness { return Witness{"post", "/p", bodyReq(wrapVal(w))} },
		}
	}
	return []leafSite{
		{Name: "query", ArrayLeaf: true,
			Build: func(leaf J) J {
				d := editBase()
				addParam(d, "/a", "get", merge(leaf, J{"in": "query", "name": "q"}))
				return d
			},
			Wit: func(w interface{}) Witness {
				return Witness{"get", "/a", refbind.Request{Query: url.Values{"q": {rawOf(w)}}}}
			}},
		{Name: "query.shared", ArrayLeaf: true, // declared at path-item level, shared by the operations
			Build: func(leaf J) J {
				d := editBase()
				at(d, "paths", "/a")["parameters"] = A{merge(leaf, J{"in": "query", "name": "q"})}
				return d
			},
			Wit: func(w interface{}) Witness {
				return Witness{"get", "/a", refbind.Request{Query: url.Values{"q": {rawOf(w)}}}}
			}},
		{Name: "query.override", ArrayLeaf: true, // path-item level keeps the old leaf, the operation overrides it
			BuildOld: func(leaf, old J) J {
				d := editBase()
				at(d, "paths", "/a")["parameters"] = A{merge(old, J{"in": "query", "name": "q"})}
				addParam(d, "/a", "get", merge(leaf, J{"in": "query", "name": "q"}))
				return d
			},
			Wit: func(w interface{}) Witness {
				return Witness{"get", "/a", refbind.Request{Query: url.Values{"q": {rawOf(w)}}}}
			}},
		{Name: "path",
			Build: func(leaf J) J {
				d := editBase()
				addParam(d, "/b/{id}", "get", merge(leaf, J{"in": "path", "name": "id", "required": true}))
				return d
			},
			Wit: func(w interface{}) Witness {
				return Witness{"get", "/b/{id}", refbind.Request{Path: map[string]string{"id": rawOf(w)}}}
			}},
		{Name: "header", ArrayLeaf: true,
			Build: func(leaf J) J {
				d := editBase()
				addParam(d, "/a", "get", merge(leaf, J{"in": "header", "name": "X-H"}))
				return d
			},
			Wit: func(w interface{}) Witness {
				return Witness{"get", "/a", refbind.Request{Header: http.Header{"X-H": {rawOf(w)}}}}
			}},
		{Name: "formData",
			Build: func(leaf J) J {
				d := editBase()
				addParam(d, "/f", "post", merge(leaf, J{"in": "formData", "name": "f"}))
				at(d, "paths", "/f", "post")["consumes"] = A{"application/x-www-form-urlencoded"}
				return d
			},
			Wit: func(w interface{}) Witness {
				return Witness{"post", "/f", refbind.Request{Form: url.Values{"f": {rawOf(w)}}, ContentType: "application/x-www-form-urlencoded"}}
			}},
		{Name: "items",
			Build: func(leaf J) J {
				d := editBase()
				addParam(d, "/a", "get", J{"in": "query", "name": "q", "type": "array", "items": cloneJ(leaf)})
				return d
			},
			Wit: func(w interface{}) Witness {
				return Witness{"get", "/a", refbind.Request{Query: url.Values{"q": {rawOf(w)}}}}
			}},
		{Name: "nested-items", OnlyArr: true, ArrayLeaf: true,
			Build: func(leaf J) J {
				d := editBase()
				addParam(d, "/a", "get", J{"in": "query", "name": "q", "type": "array", "collectionFormat": "pipes", "items": cloneJ(leaf)})
				return d
			},
			Wit: func(w interface{}) Witness {
				return Witness{"get", "/a", refbind.Request{Query: url.Values{"q": {rawOf(w)}}}}
			}},
		bodySite("body.root", func(l J) (J, J) { return cloneJ(l), nil }, func(w interface{}) interface{} { return w }),
		bodySite("body.prop1", func(l J) (J, J) {
			return J{"type": "object", "properties": J{"p": cloneJ(l)}}, nil
		}, func(w interface{}) interface{} { return J{"p": w} }),
		bodySite("body.prop2", func(l J) (J, J) {
			return J{"type": "object", "properties": J{"o": J{"type": "object", "properties": J{"p": cloneJ(l)}}}}, nil
		}, func(w interface{}) interface{} { return J{"o": J{"p": w}} }),
		bodySite("body.ref", func(l J) (J, J) {
			return J{"$ref": "#/definitions/Def"}, J{"Def": J{"type": "object", "properties": J{"p": cloneJ(l)}}}
		}, func(w interface{}) interface{} { return J{"p": w} }),
		bodySite("body.allOf", func(l J) (J, J) {
			return J{"allOf": A{J{"$ref": "#/definitions/Base"}, J{"type": "object", "properties": J{"p": cloneJ(l)}}}},
				J{"Base": J{"type": "object", "properties": J{"b": J{"type": "string"}}}}
		}, func(w interface{}) interface{} { return J{"p": w, "b": "x"} }),
		bodySite("body.items", func(l J) (J, J) {
			return J{"type": "array", "items": cloneJ(l)}, nil
		}, func(w interface{}) interface{} { return A{w} }),
		bodySite("body.refprop", func(l J) (J, J) {
			return J{"type": "object", "properties": J{"r": J{"$ref": "#/definitions/Leaf"}}}, J{"Leaf": cloneJ(l)}
		}, func(w interface{}) interface{} { return J{"r": w} }),
		bodySite("body.map", func(l J) (J, J) {
			return J{"type": "object", "additionalProperties": cloneJ(l)}, nil
		}, func(w interface{}) interface{} { return J{"k": w} }),
		// own properties next to an allOf whose $ref member holds the edited leaf
		bodySite("body.props+allOf-ref", func(l J) (J, J) {
			return J{"type": "object", "properties": J{"own": J{"type": "string"}}, "allOf": A{J{"$ref": "#/definitions/Base"}}},
				J{"Base": J{"type": "object", "properties": J{"p": cloneJ(l)}}}
		}, func(w interface{}) interface{} { return J{"own": "x", "p": w} }),
		// the edited leaf sits in a definition reached through a nested, textually unchanged $ref
		bodySite("body.ref>prop-ref", func(l J) (J, J) {
			return J{"$ref": "#/definitions/Outer"}, J{"Outer": J{"type": "object", "properties": J{"r": J{"$ref": "#/definitions/Inner"}}}, "Inner": J{"type": "object", "properties": J{"p": cloneJ(l)}}}
		}, func(w interface{}) interface{} { return J{"r": J{"p": w}} }),
		bodySite("body.ref>array-of-ref", func(l J) (J, J) {
			return J{"$ref": "#/definitions/Outer"}, J{"Outer": J{"type": "object", "properties": J{"l": J{"type": "array", "items": J{"$ref": "#/definitions/Inner"}}}}, "Inner": J{"type": "object", "properties": J{"p": cloneJ(l)}}}
		}, func(w interface{}) interface{} { return J{"l": A{J{"p": w}}} }),
	}
}

func structuralEdits() []EditPair {
	var out []EditPair
	add := func(kind, site string, old, nw J, w *Witness) {
		out = append(out, EditPair{Name: kind + " @ " + site, Kind: kind, Site: site, Old: old, New: nw, Witness: w})
	}
	// remove endpoint
	{
		old := editBase()
		at(old, "paths", "/z")["get"] = J{"operationId": "getZ", "responses": J{"200": J{"description": "ok"}}}
		nw := editBase()
		add("endpoint removed", "path", old, nw, &Witness{"get", "/z", refbind.Request{}})
		old2 := editBase()
		at(old2, "paths", "/a")["put"] = J{"operationId": "putA", "responses": J{"200": J{"description": "ok"}}}
		add("endpoint removed", "method", old2, editBase(), &Witness{"put", "/a", refbind.Request{}})
	}
	// remove consumed media type
	{
		body := J{"in": "body", "name": "body", "required": true, "schema": J{"type": "object"}}
		old := editBase()
		old["consumes"] = A{"application/json", "application/xml"}
		addParam(old, "/p", "post", body)
		nw := cloneJ(old)
		nw["consumes"] = A{"application/xml"}
		add("consumes media type removed", "global", old, nw, &Witness{"post", "/p", refbind.Request{HasBody: true, Body: "{}", ContentType: "application/json"}})
		old2 := editBase()
		addParam(old2, "/p", "post", body)
		at(old2, "paths", "/p", "post")["consumes"] = A{"application/json", "application/xml"}
		nw2 := cloneJ(old2)
		at(nw2, "paths", "/p", "post")["consumes"] = A{"application/xml"}
		add("consumes media type removed", "operation", old2, nw2, &Witness{"post", "/p", refbind.Request{HasBody: true, Body: "{}", ContentType: "application/json"}})
	}
	// parameter presence edits per location
	type loc struct {
		in, path, method, name string
		empty                  refbind.Request
		with                   func(v string) refbind.Request
	}
	locs := []loc{
		{"query", "/a", "get", "q", refbind.Request{}, func(v string) refbind.Request { return refbind.Request{Query: url.Values{"q": {v}}} }},
		{"header", "/a", "get", "X-H", refbind.Request{}, func(v string) refbind.Request { return refbind.Request{Header: http.Header{"X-H": {v}}} }},
		{"formData", "/f", "post", "f", refbind.Request{ContentType: "application/x-www-form-urlencoded"}, func(v string) refbind.Request {
			return refbind.Request{Form: url.Values{"f": {v}}, ContentType: "application/x-www-form-urlencoded"}
		}},
	}
	for _, l := range locs {
		mk := func(p J) J {
			d := editBase()
			if l.in == "formData" {
				at(d, "paths", "/f")["post"] = J{"operationId": "postF", "consumes": A{"application/x-www-form-urlencoded"}, "responses": J{"200": J{"description": "ok"}}}
			}
			if p != nil {
				addParam(d, l.path, l.method, p)
			}
			return d
		}
		p := J{"in": l.in, "name": l.name, "type": "string"}
		add("required parameter added", l.in, mk(nil), mk(merge(p, J{"required": true})), &Witness{l.method, l.path, l.empty})
		add("parameter optional->required", l.in, mk(p), mk(merge(p, J{"required": true})), &Witness{l.method, l.path, l.empty})
	}
	{
		shared := J{"in": "query", "name": "q", "type": "string"}
		old := editBase()
		at(old, "paths", "/a")["parameters"] = A{cloneJ(shared)}
		nw := cloneJ(old)
		addParam(nw, "/a", "get", merge(shared, J{"required": true}))
		add("parameter optional->required", "query.override", old, nw, &Witness{"get", "/a", refbind.Request{}})
		nw2 := editBase()
		at(nw2, "paths", "/a")["parameters"] = A{merge(shared, J{"required": true})}
		add("parameter optional->required", "query.shared", old, nw2, &Witness{"get", "/a", refbind.Request{}})
		add("required parameter added", "query.shared", editBase(), nw2, &Witness{"get", "/a", refbind.Request{}})
	}
	// required path parameter cannot be "added" without a new path; required body added / becomes required
	{
		old := editBase()
		at(old, "paths", "/p")["post"] = J{"operationId": "postP", "responses": J{"200": J{"description": "ok"}}}
		nw := cloneJ(old)
		addParam(nw, "/p", "post", J{"in": "body", "name": "body", "required": true, "schema": J{"type": "object"}})
		add("required parameter added", "body", old, nw, &Witness{"post", "/p", refbind.Request{}})
		old2 := cloneJ(old)
		addParam(old2, "/p", "post", J{"in": "body", "name": "body", "schema": J{"type": "object"}})
		add("parameter optional->required", "body", old2, nw, &Witness{"post", "/p", refbind.Request{}})
	}
	// change location of a required parameter
	{
		old := editBase()
		addParam(old, "/a", "get", J{"in": "query", "name": "q", "type": "string", "required": true})
		nw := editBase()
		addParam(nw, "/a", "get", J{"in": "header", "name": "q", "type": "string", "required": true})
		add("parameter location changed", "query->header", old, nw, &Witness{"get", "/a", refbind.Request{Query: url.Values{"q": {"v"}}}})
		old2 := editBase()
		addParam(old2, "/f", "post", J{"in": "formData", "name": "f", "type": "string", "required": true})
		at(old2, "paths", "/f", "post")["consumes"] = A{"application/x-www-form-urlencoded"}
		nw2 := editBase()
		addParam(nw2, "/f", "post", J{"in": "query", "name": "f", "type": "string", "required": true})
		at(nw2, "paths", "/f", "post")["consumes"] = A{"application/x-www-form-urlencoded"}
		add("parameter location changed", "formData->query", old2, nw2, &Witness{"post", "/f", refbind.Request{Form: url.Values{"f": {"v"}}, ContentType: "application/x-www-form-urlencoded"}})
	}
	// change collectionFormat of an array of integers
	for _, cf := range [][2]string{{"pipes", "csv"}, {"csv", "ssv"}, {"", "pipes"}} {
		mk := func(f string) J {
			d := editBase()
			p := J{"in": "query", "name": "q", "type": "array", "items": J{"type": "integer"}}
			if f != "" {
				p["collectionFormat"] = f
			}
			addParam(d, "/a", "get", p)
			return d
		}
		sep := map[string]string{"pipes": "|", "csv": ",", "": ",", "ssv": " "}[cf[0]]
		add("collectionFormat changed", "query "+cf[0]+"->"+cf[1], mk(cf[0]), mk(cf[1]), &Witness{"get", "/a", refbind.Request{Query: url.Values{"q": {"1" + sep + "2"}}}})
	}
	{
		mk := func(f string) J {
			d := editBase()
			addParam(d, "/a", "get", J{"in": "header", "name": "X-L", "type": "array", "collectionFormat": f, "items": J{"type": "integer"}})
			return d
		}
		add("collectionFormat changed", "header pipes->csv", mk("pipes"), mk("csv"), &Witness{"get", "/a", refbind.Request{Header: http.Header{"X-L": {"1|2"}}}})
	}
	// required body property added / becomes required, at several depths
	type bsite struct {
		name string
		wrap func(obj J) (schema J, defs J)
		val  func(o interface{}) interface{}
	}
	bsites := []bsite{
		{"body.root", func(o J) (J, J) { return o, nil }, func(o interface{}) interface{} { return o }},
		{"body.prop1", func(o J) (J, J) { return J{"type": "object", "properties": J{"o": o}}, nil }, func(o interface{}) interface{} { return J{"o": o} }},
		{"body.ref", func(o J) (J, J) { return J{"$ref": "#/definitions/Def"}, J{"Def": o} }, func(o interface{}) interface{} { return o }},
		{"body.allOf", func(o J) (J, J) {
			return J{"allOf": A{J{"$ref": "#/definitions/Base"}, o}}, J{"Base": J{"type": "object", "properties": J{"b": J{"type": "string"}}}}
		}, func(o interface{}) interface{} { return o }},
		{"body.items", func(o J) (J, J) { return J{"type": "array", "items": o}, nil }, func(o interface{}) interface{} { return A{o} }},
		{"body.refitems", func(o J) (J, J) {
			return J{"type": "array", "items": J{"$ref": "#/definitions/Def"}}, J{"Def": o}
		}, func(o interface{}) interface{} { return A{o} }},
	}
	for _, s := range bsites {
		mk := func(obj J) J {
			d := editBase()
			schema, defs := s.wrap(cloneJ(obj))
			if defs != nil {
				d["definitions"] = defs
			}
			addParam(d, "/p", "post", J{"in": "body", "name": "body", "required": true, "schema": schema})
			return d
		}
		o0 := J{"type": "object", "properties": J{"a": J{"type": "string"}}}
		o1 := J{"type": "object", "properties": J{"a": J{"type": "string"}, "n": J{"type": "string"}}}
		o1r := J{"type": "object", "required": A{"n"}, "properties": J{"a": J{"type": "string"}, "n": J{"type": "string"}}}
		w := &Witness{"post", "/p", refbind.Request{HasBody: true, Body: string(mustJSON(s.val(J{"a": "x"}))), ContentType: "application/json"}}
		add("required body property added", s.name, mk(o0), mk(o1r), w)
		add("body property optional->required", s.name, mk(o1), mk(o1r), w)
	}
	return out
}

func responseEdits() []EditPair {
	var out []EditPair
	add := func(kind, site string, old, nw J) {
		out = append(out, EditPair{Name: kind + " @ " + site, Kind: kind, Site: site, Old: old, New: nw, Response: true})
	}
	withResp := func(code string, r J, defs J) J {
		d := editBase()
		at(d, "paths", "/a", "get", "responses")[code] = r
		if defs != nil {
			d["definitions"] = defs
		}
		return d
	}
	// response code removed
	add("response code removed", "404", withResp("404", J{"description": "nf"}, nil), editBase())
	add("response code removed", "201+schema", withResp("201", J{"description": "c", "schema": J{"type": "object", "properties": J{"x": J{"type": "string"}}}}, nil), editBase())
	// response property removed
	o2 := J{"type": "object", "properties": J{"x": J{"type": "string"}, "y": J{"type": "integer"}}}
	o1 := J{"type": "object", "properties": J{"x": J{"type": "string"}}}
	add("response property removed", "depth1", withResp("200", J{"description": "ok", "schema": cloneJ(o2)}, nil), withResp("200", J{"description": "ok", "schema": cloneJ(o1)}, nil))
	add("response property removed", "depth2",
		withResp("200", J{"description": "ok", "schema": J{"type": "object", "properties": J{"o": cloneJ(o2)}}}, nil),
		withResp("200", J{"description": "ok", "schema": J{"type": "object", "properties": J{"o": cloneJ(o1)}}}, nil))
	add("response property removed", "ref",
		withResp("200", J{"description": "ok", "schema": J{"$ref": "#/definitions/R"}}, J{"R": cloneJ(o2)}),
		withResp("200", J{"description": "ok", "schema": J{"$ref": "#/definitions/R"}}, J{"R": cloneJ(o1)}))
	add("response property removed", "array-of-ref",
		withResp("200", J{"description": "ok", "schema": J{"type": "array", "items": J{"$ref": "#/definitions/R"}}}, J{"R": cloneJ(o2)}),
		withResp("200", J{"description": "ok", "schema": J{"type": "array", "items": J{"$ref": "#/definitions/R"}}}, J{"R": cloneJ(o1)}))
	add("response property removed", "default-response",
		withResp("default", J{"description": "e", "schema": cloneJ(o2)}, nil), withResp("default", J{"description": "e", "schema": cloneJ(o1)}, nil))
	// response header removed
	add("response header removed", "200",
		withResp("200", J{"description": "ok", "headers": J{"X-A": J{"type": "string"}, "X-B": J{"type": "integer"}}}, nil),
		withResp("200", J{"description": "ok", "headers": J{"X-A": J{"type": "string"}}}, nil))
	add("response header removed", "last",
		withResp("200", J{"description": "ok", "headers": J{"X-A": J{"type": "string"}}}, nil),
		withResp("200", J{"description": "ok"}, nil))
	// response enum gains a value
	e2 := J{"type": "string", "enum": A{"on", "off"}}
	e3 := J{"type": "string", "enum": A{"on", "off", "auto"}}
	add("response enum value added", "root", withResp("200", J{"description": "ok", "schema": cloneJ(e2)}, nil), withResp("200", J{"description": "ok", "schema": cloneJ(e3)}, nil))
	add("response enum value added", "prop",
		withResp("200", J{"description": "ok", "schema": J{"type": "object", "properties": J{"s": cloneJ(e2)}}}, nil),
		withResp("200", J{"description": "ok", "schema": J{"type": "object", "properties": J{"s": cloneJ(e3)}}}, nil))
	add("response enum value added", "ref",
		withResp("200", J{"description": "ok", "schema": J{"$ref": "#/definitions/R"}}, J{"R": J{"type": "object", "properties": J{"s": cloneJ(e2)}}}),
		withResp("200", J{"description": "ok", "schema": J{"$ref": "#/definitions/R"}}, J{"R": J{"type": "object", "properties": J{"s": cloneJ(e3)}}}))
	add("response enum value added", "items",
		withResp("200", J{"description": "ok", "schema": J{"type": "array", "items": cloneJ(e2)}}, nil),
		withResp("200", J{"description": "ok", "schema": J{"type": "array", "items": cloneJ(e3)}}, nil))
	// the same two response-side edits at sites where the changed schema is reached indirectly
	type respSite struct {
		name string
		wrap func(inner J) (J, J)
	}
	rs := []respSite{
		{"ref>prop-ref", func(in J) (J, J) {
			return J{"$ref": "#/definitions/R"}, J{"R": J{"type": "object", "properties": J{"n": J{"$ref": "#/definitions/N"}}}, "N": in}
		}},
		{"ref>array-of-ref", func(in J) (J, J) {
			return J{"$ref": "#/definitions/R"}, J{"R": J{"type": "object", "properties": J{"l": J{"type": "array", "items": J{"$ref": "#/definitions/N"}}}}, "N": in}
		}},
		{"prop-ref", func(in J) (J, J) {
			return J{"type": "object", "properties": J{"n": J{"$ref": "#/definitions/N"}}}, J{"N": in}
		}},
		{"props+allOf-ref", func(in J) (J, J) {
			return J{"type": "object", "properties": J{"own": J{"type": "string"}}, "allOf": A{J{"$ref": "#/definitions/B"}}}, J{"B": in}
		}},
		{"allOf-ref+inline", func(in J) (J, J) {
			return J{"allOf": A{J{"$ref": "#/definitions/B"}, J{"type": "object", "properties": J{"own": J{"type": "string"}}}}}, J{"B": in}
		}},
		{"map-of-ref", func(in J) (J, J) {
			return J{"type": "object", "additionalProperties": J{"$ref": "#/definitions/N"}}, J{"N": in}
		}},
	}
	for _, site := range rs {
		for _, code := range []string{"200", "default"} {
			so, do := site.wrap(cloneJ(o2))
			sn, dn := site.wrap(cloneJ(o1))
			add("response property removed", site.name+"/"+code, withResp(code, J{"description": "r", "schema": so}, do), withResp(code, J{"description": "r", "schema": sn}, dn))
			eo, deo := site.wrap(J{"type": "object", "properties": J{"s": cloneJ(e2)}})
			en, den := site.wrap(J{"type": "object", "properties": J{"s": cloneJ(e3)}})
			add("response enum value added", site.name+"/"+code, withResp(code, J{"description": "r", "schema": eo}, deo), withResp(code, J{"description": "r", "schema": en}, den))
		}
	}
	return out
}

// EditPairs enumerates the catalogue: quick = every kind at its two simplest sites (query, body.prop1
// for leaf edits), thorough = every kind x every site.
func EditPairs(tier string) []EditPair {
	var out []EditPair
	sites := leafSites()
	for _, e := range leafEdits() {
		isArr := e.Old["type"] == "array"
		n := 0
		for _, s := range sites {
			if isArr && !s.ArrayLeaf {
				continue
			}
			if !isArr && s.OnlyArr {
				continue
			}
			if e.NoBody && strings.HasPrefix(s.Name, "body.") {
				continue
			}
			if tier != "thorough" && n >= 2 && s.Name != "body.prop1" && s.Name != "items" && s.Name != "body.props+allOf-ref" && s.Name != "body.ref>prop-ref" && s.Name != "body.ref>array-of-ref" {
				continue
			}
			n++
			w := s.Wit(e.W)
			build := s.Build
			if s.BuildOld != nil {
				old := e.Old
				build = func(leaf J) J { return s.BuildOld(leaf, old) }
			}
			out = append(out, EditPair{Name: e.Kind + " @ " + s.Name, Kind: e.Kind, Site: s.Name, Old: build(e.Old), New: build(e.New), Witness: &w})
		}
	}
	out = append(out, structuralEdits()...)
	out = append(out, responseEdits()...)
	return out
}

// EditPairsWithBystanders is the catalogue of C13: every pair, and every request-side pair once more with a
// same-name bystander parameter.
func EditPairsWithBystanders(tier string) []EditPair {
	pairs := EditPairs(tier)
	return append(pairs, withBystanders(pairs)...)
}

// withBystanders: every request-side pair whose edit sits in a non-body or body parameter is repeated with
// an unchanged, optional "bystander" parameter of the SAME NAME in another location, present in both
// documents (for a body parameter: a shared path-level query parameter of that name). The witness request
// does not carry the bystander, so it stays a witness (machine-checked again by the check).
func withBystanders(pairs []EditPair) []EditPair {
	type key struct{ path, method, name, in string }
	params := func(doc J) map[key]J {
		out := map[key]J{}
		paths, _ := doc["paths"].(J)
		for pth, pi := range paths {
			pij, _ := pi.(J)
			for m, op := range pij {
				opj, ok := op.(J)
				if !ok || m == "parameters" {
					continue
				}
				lists := []interface{}{opj["parameters"], pij["parameters"]}
				for _, l := range lists {
					ps, _ := l.(A)
					for _, x := range ps {
						if pj, ok := x.(J); ok {
							n, _ := pj["name"].(string)
							in, _ := pj["in"].(string)
							k := key{pth, m, n, in}
							if _, seen := out[k]; !seen {
								out[k] = pj
							}
						}
					}
				}
			}
		}
		return out
	}
	var out []EditPair
	for _, ep := range pairs {
		if ep.Witness == nil || ep.Response || ep.Neutral {
			continue
		}
		po, pn := params(ep.Old), params(ep.New)
		// the edited parameter: present with different content, or present on one side only
		var edited *key
		var keys []key
		for k := range pn {
			keys = append(keys, k)
		}
		for k := range po {
			if _, ok := pn[k]; !ok {
				keys = append(keys, k)
			}
		}
		sort.Slice(keys, func(i, j int) bool { return fmt.Sprint(keys[i]) < fmt.Sprint(keys[j]) })
		for _, k := range keys {
			o, ok1 := po[k]
			v, ok2 := pn[k]
			if !ok1 || !ok2 || !jsonEqual(o, v) {
				kk := k
				edited = &kk
				break
			}
		}
		if edited == nil || edited.method != strings.ToLower(ep.Witness.Method) {
			continue
		}
		by := J{"in": "header", "name": edited.name, "type": "string"}
		if edited.in == "header" {
			by["in"] = "query"
		}
		clash := false
		for _, m := range []map[key]J{po, pn} {
			if _, ok := m[key{edited.path, edited.method, edited.name, by["in"].(string)}]; ok {
				clash = true
			}
		}
		if clash {
			continue
		}
		tw := EditPair{Name: ep.Name + " +same-name bystander", Kind: ep.Kind, Site: ep.Site + "+bystander", Old: cloneJ(ep.Old), New: cloneJ(ep.New), Witness: ep.Witness}
		for _, d := range []J{tw.Old, tw.New} {
			if edited.in == "body" {
				by["in"] = "query"
				pi := at(d, "paths", edited.path)
				l, _ := pi["parameters"].(A)
				pi["parameters"] = append(l, cloneJ(by))
				continue
			}
			if _, ok := at(d, "paths", edited.path)[edited.method].(J); !ok {
				continue
			}
			addParam(d, edited.path, edited.method, cloneJ(by))
		}
		out = append(out, tw)
	}
	return out
}

// NeutralEdits are non-narrowing changes (descriptions, defaults, tags, extensions, media types) used
// as extra pairs by C14 and C15.
func NeutralEdits() []EditPair {
	var out []EditPair
	add := func(kind string, old, nw J) {
		out = append(out, EditPair{Name: "neutral " + kind, Kind: kind, Site: "-", Old: old, New: nw, Neutral: true})
	}
	mk := func(f func(d J, v int)) (J, J) {
		a, b := baseDoc(), baseDoc()
		f(a, 0)
		f(b, 1)
		return a, b
	}
	txt := []string{"first text", "second text"}
	{
		// a path item whose vendor extension changes while it also gains / loses a method
		a, b := mk(func(d J, v int) {
			at(d, "paths", "/a")["x-path"] = A{[]string{"p", "q"}[v]}
			at(d, "paths", "/a", "get")["x-op"] = []string{"o1", "o2"}[v]
			if v == 1 {
				at(d, "paths", "/a")["put"] = J{"operationId": "putA", "x-op": "new", "responses": J{"200": J{"description": "ok"}}}
				at(d, "paths", "/a")["delete"] = J{"operationId": "delA", "responses": J{"204": J{"description": "gone"}}}
			} else {
				at(d, "paths", "/a")["post"] = J{"operationId": "postA", "x-op": "old", "responses": J{"201": J{"description": "made"}}}
			}
		})
		add("path and operation extensions changed while methods come and go", a, b)
	}
	{
		// two differences with the same code and text whose locations are prefix-related
		a, b := mk(func(d J, v int) {
			at(d, "paths", "/a", "get")["description"] = txt[v]
			addParam(d, "/a", "get", J{"in": "query", "name": "q", "type": "string", "description": txt[v]})
			at(d, "paths", "/a", "get", "responses", "200")["description"] = txt[v]
		})
		add("operation + parameter + response descriptions changed alike", a, b)
	}
	{
		a, b := mk(func(d J, v int) {
			inner := J{"type": "object", "properties": J{"x": J{"type": "string"}}}
			outer := J{"type": "object", "properties": J{"o": inner, "x": J{"type": "string"}}}
			if v == 1 {
				inner["required"] = A{"x"}
				outer["required"] = A{"x"}
			}
			addParam(d, "/p", "post", J{"in": "body", "name": "body", "required": true, "schema": outer})
		})
		add("body property and a like-named sub-property both become required", a, b)
	}
	{
		a, b := mk(func(d J, v int) { at(d, "paths", "/a", "get")["description"] = txt[v] })
		add("operation description changed", a, b)
	}
	{
		a, b := mk(func(d J, v int) { at(d, "info")["description"] = txt[v] })
		add("info description changed", a, b)
	}
	{
		a, b := mk(func(d J, v int) {
			addParam(d, "/a", "get", J{"in": "query", "name": "q", "type": "string", "description": txt[v]})
		})
		add("parameter description changed", a, b)
	}
	{
		a, b := mk(func(d J, v int) { at(d, "paths", "/a", "get", "responses", "200")["description"] = txt[v] })
		add("response description changed", a, b)
	}
	{
		a, b := mk(func(d J, v int) {
			at(d, "paths", "/a", "get", "responses")["200"] = J{"description": "ok", "schema": J{"$ref": "#/definitions/Pet"}}
			at(d, "definitions", "Pet", "properties", "name")["description"] = txt[v]
		})
		add("property description changed", a, b)
	}
	{
		a, b := mk(func(d J, v int) {
			at(d, "paths", "/a", "get", "responses")["200"] = J{"description": "ok", "schema": J{"$ref": "#/definitions/Pet"}}
			at(d, "definitions", "Pet")["description"] = txt[v]
		})
		add("definition description changed", a, b)
	}
	{
		a, b := mk(func(d J, v int) {
			addParam(d, "/a", "get", J{"in": "query", "name": "q", "type": "string", "default": txt[v]})
		})
		add("parameter default changed", a, b)
	}
	{
		a, b := mk(func(d J, v int) {
			addParam(d, "/a", "get", J{"in": "query", "name": "q", "type": "array", "items": J{"type": "integer"}, "default": A{1, v}})
		})
		add("array parameter default changed", a, b)
	}
	{
		a, b := mk(func(d J, v int) { at(d, "paths", "/a", "get")["tags"] = A{"keep", []string{"t0", "t1"}[v]} })
		add("tag replaced", a, b)
	}
	{
		a, b := mk(func(d J, v int) { at(d, "paths", "/a", "get")["x-op"] = v })
		add("operation extension changed", a, b)
	}
	{
		a, b := mk(func(d J, v int) { d["produces"] = A{"application/json", []string{"text/plain", "text/csv"}[v]} })
		add("produces replaced", a, b)
	}
	{
		a, b := mk(func(d J, v int) { d["host"] = []string{"a.example.com", "b.example.com"}[v] })
		add("host changed", a, b)
	}
	{
		a, b := mk(func(d J, v int) {
			at(d, "paths", "/a", "get", "responses")["200"] = J{"description": "ok", "headers": J{"X-A": J{"type": []string{"string", "integer"}[v]}}}
		})
		add("response header type changed", a, b)
	}
	{
		a, b := mk(func(d J, v int) {
			at(d, "paths", "/a", "get", "responses")["200"] = J{"description": "ok", "schema": J{"$ref": "#/definitions/" + []string{"Pet", "Pet2"}[v]}}
			at(d, "definitions")["Pet2"] = clone(at(d, "definitions")["Pet"])
		})
		add("response ref target changed", a, b)
	}
	{
		a, b := mk(func(d J, v int) { at(d, "paths", "/a", "get")["deprecated"] = v == 1 })
		add("deprecated flag set", a, b)
	}
	return out
}

// Accepts evaluates a witness against a document with the reference binder.
func Accepts(doc J, w Witness) (refbind.Verdict, string, error) {
	sw, err := toSwagger(doc)
	if err != nil {
		return refbind.Reject, "", err
	}
	pi, ok := sw.Paths.Paths[w.Path]
	if !ok {
		return refbind.Reject, "no such path", nil
	}
	var op *spec.Operation
	switch w.Method {
	case "get":
		op = pi.Get
	case "post":
		op = pi.Post
	case "put":
		op = pi.Put
	case "delete":
		op = pi.Delete
	}
	if op == nil {
		return refbind.Reject, "no such operation", nil
	}
	params := refbind.EffectiveParams(sw, pi, op)
	res := refbind.Bind(params, w.Req, refbind.Options{Root: sw, Consumes: refbind.EffectiveConsumes(sw, op), BodyOK: func(schema *spec.Schema, root interface{}, data interface{}) bool {
		return validate.NewSchemaValidator(schema, root, "", strfmt.Default).Validate(data).IsValid()
	}})
	// form requests: content type must be consumed as well
	if w.Req.Form != nil || strings.Contains(w.Req.ContentType, "form") {
		ok := false
		for _, c := range refbind.EffectiveConsumes(sw, op) {
			if c == w.Req.ContentType {
				ok = true
			}
		}
		if !ok {
			return refbind.Reject, "content type not consumed", nil
		}
	}
	return res.Verdict, res.Why, nil
}
