package props

import (
	"bytes"
	"encoding/json"
	"fmt"
	"io"
	"net"
	"net/http"
	"os"
	"os/exec"
	"path/filepath"
	"runtime"
	"strings"
	"time"

	"github.com/go-openapi/loads"

	"verif/mc/evid"
)

// C10 — the spec embedded in a generated server is the input spec.

type c10Doc struct {
	Name string `json:"name"`
	Doc  J      `json:"doc"`
	YAML bool   `json:"yaml,omitempty"`
	Mode string `json:"mode"` // minimal | full | expand
}

func c10Strings() []scalar {
	return []scalar{
		{"backtick", "a`b"}, {"backticks", "``` code ```"}, {"dquote", `say "hi"`}, {"squote", "it's"}, {"backslash", `a\b\n`}, {"newline", "l1\nl2"}, {"crlf", "l1\r\nl2"},
		{"tab", "a\tb"}, {"ctrl", "a\u0001b"}, {"accent", "café"}, {"cjk", "日本語"}, {"emoji", "😀"}, {"u2028", "a\u2028b"}, {"html", "<b>&amp;</b>"}, {"tmpl", "{{ .Name }}"},
		{"percent", "100%s %d"}, {"dollar", "${x} $1"}, {"backtick+plus", "` + \"x\" + `"}, {"nul-escape", `\u0000`}, {"comment", "*/ x /*"},
		// text that spells a JSON escape (the embedded document is JSON inside Go source)
		{"literal-u003c", `a\u003cb`}, {"literal-u0026", `x\u0026y\u003e`}, {"literal-quote-escape", `say \"hi\"`}, {"literal-backslash-backtick", "a\\`b"},
	}
}

func c10Documents(tier string) []c10Doc {
	var out []c10Doc
	fam, _ := Family(1)
	for _, f := range fam {
		if strings.Contains(f.Name, "form=2") {
			continue // file upload: needs multipart consumer only; covered by C01
		}
		out = append(out, c10Doc{Name: "fam:" + f.Name, Doc: f.Doc})
	}
	// inline schemas that make the generator rewrite the loaded document
	ctxs := schemaContexts()
	leaves := reducedLeaves()
	for ci, ct := range ctxs {
		for li, lf := range leaves {
			// quick: a fixed quarter of the (context, leaf) grid, plus every leaf under the two-hop alias contexts
			if tier != "thorough" && (li+ci)%4 != 0 && !strings.HasPrefix(ct.Name, "ref2") {
				continue
			}
			b := &defBuilder{name: "In", aux: map[string]J{}}
			sch := ct.Wrap(cloneJ(lf.Schema), b)
			if sch == nil {
				continue
			}
			d := baseDoc()
			for k, v := range b.aux {
				at(d, "definitions")[k] = v
			}
			addParam(d, "/p", "post", J{"in": "body", "name": "body", "required": true, "schema": cloneJ(sch)})
			at(d, "paths", "/p", "post", "responses")["200"] = J{"description": "ok", "schema": cloneJ(sch)}
			out = append(out, c10Doc{Name: fmt.Sprintf("inline:%s>%s", ct.Name, lf.Desc), Doc: d})
		}
	}
	// string contents
	for _, sc := range c10Strings() {
		// (a) positions that only end up in comments / the embedded document
		d := baseDoc()
		at(d, "info")["description"] = sc.S
		at(d, "info")["termsOfService"] = sc.S
		d["x-ext"] = J{"k": sc.S, "l": A{sc.S}}
		at(d, "paths", "/a", "get")["x-op"] = sc.S
		at(d, "paths", "/a", "get", "responses")["200"] = J{"description": sc.S, "schema": J{"$ref": "#/definitions/Pet"}}
		at(d, "definitions", "Pet")["x-model-ext"] = sc.S
		out = append(out, c10Doc{Name: "string-doc:" + sc.Name, Doc: d})
		// (b) every free-text position, including those rendered into Go code (generation may refuse)
		d = baseDoc()
		at(d, "info")["description"] = sc.S
		at(d, "paths", "/a", "get")["summary"] = sc.S
		at(d, "definitions", "Pet", "properties")["note"] = J{"type": "string", "default": sc.S}
		at(d, "definitions", "Pet", "properties", "kind")["enum"] = A{"cat", sc.S}
		at(d, "definitions", "Pet")["description"] = sc.S
		d["x-ext"] = J{"k": sc.S}
		at(d, "paths", "/a", "get", "responses")["200"] = J{"description": sc.S, "schema": J{"$ref": "#/definitions/Pet"}}
		addParam(d, "/a", "get", J{"in": "query", "name": "q", "type": "string", "default": sc.S, "description": sc.S})
		out = append(out, c10Doc{Name: "string:" + sc.Name, Doc: d})
	}
	// unusual entries in the string lists of the document (media types, tags): empty entries, duplicates,
	// surrounding blanks - at top level (inherited by the operations) and at operation level
	{
		d := baseDoc()
		d["consumes"] = A{"text/plain", ""}
		d["produces"] = A{"application/json", ""}
		out = append(out, c10Doc{Name: "lists:empty entry (top level)", Doc: d})
		d = baseDoc()
		at(d, "paths", "/a", "get")["produces"] = A{"", "application/json"}
		at(d, "paths", "/a", "get")["tags"] = A{"a", ""}
		out = append(out, c10Doc{Name: "lists:empty entry (operation level, tags)", Doc: d})
		d = baseDoc() // (duplicate media types are not valid Swagger; blanks are)
		d["consumes"] = A{"application/json", " application/xml "}
		d["produces"] = A{"application/json", "text/plain "}
		at(d, "paths", "/a", "get")["tags"] = A{"a", " b "}
		out = append(out, c10Doc{Name: "lists:surrounding blanks", Doc: d})
	}
	// names the generator would synthesise
	{
		d := baseDoc()
		at(d, "paths", "/a", "get", "responses")["200"] = J{"description": "ok", "schema": J{"type": "object", "properties": J{"x": J{"type": "string"}}}}
		at(d, "definitions")["GetAOKBody"] = J{"type": "object", "properties": J{"mine": J{"type": "integer"}}}
		at(d, "paths", "/z")["get"] = J{"operationId": "getZ", "responses": J{"200": J{"description": "ok", "schema": J{"$ref": "#/definitions/GetAOKBody"}}}}
		out = append(out, c10Doc{Name: "synth:GetAOKBody", Doc: d})
		d2 := baseDoc()
		at(d2, "definitions")["Holder"] = J{"type": "object", "properties": J{"items": J{"type": "array", "items": J{"type": "object", "properties": J{"i": J{"type": "string"}}}}}}
		at(d2, "definitions")["HolderItemsItems0"] = J{"type": "object", "properties": J{"mine": J{"type": "integer"}}}
		at(d2, "paths", "/a", "get", "responses")["200"] = J{"description": "ok", "schema": J{"$ref": "#/definitions/Holder"}}
		at(d2, "paths", "/z")["get"] = J{"operationId": "getZ", "responses": J{"200": J{"description": "ok", "schema": J{"$ref": "#/definitions/HolderItemsItems0"}}}}
		out = append(out, c10Doc{Name: "synth:HolderItemsItems0", Doc: d2})
	}
	// explicit default-valued keywords
	{
		d := baseDoc()
		addParam(d, "/a", "get", J{"in": "query", "name": "q", "type": "array", "items": J{"type": "integer", "minimum": 0, "exclusiveMinimum": false}, "required": false, "uniqueItems": false, "allowEmptyValue": false, "collectionFormat": "csv", "minItems": 0})
		at(d, "paths", "/a", "get")["deprecated"] = false
		at(d, "definitions", "Pet", "properties", "name")["readOnly"] = false
		at(d, "definitions", "Pet", "properties", "name")["minLength"] = 0
		at(d, "definitions", "Pet", "properties", "age")["exclusiveMaximum"] = false
		at(d, "definitions", "Pet")["additionalProperties"] = true
		out = append(out, c10Doc{Name: "explicit-defaults", Doc: d})
	}
	// operations without operationId (the generator derives names; the documents must not gain them)
	{
		strip := func(d J) J {
			d = cloneJ(d)
			for _, pi := range at(d, "paths") {
				for _, op := range pi.(J) {
					if o, ok := op.(J); ok {
						delete(o, "operationId")
					}
				}
			}
			return d
		}
		d := baseDoc()
		addParam(d, "/b/{id}", "get", J{"in": "path", "name": "id", "type": "string", "required": true})
		at(d, "paths", "/a")["post"] = J{"tags": A{"things"}, "parameters": A{J{"in": "body", "name": "body", "schema": J{"type": "object", "properties": J{"x": J{"type": "string"}}}}}, "responses": J{"201": J{"description": "c", "schema": J{"type": "array", "items": J{"type": "object", "properties": J{"y": J{"type": "integer"}}}}}}}
		out = append(out, c10Doc{Name: "no-operationId", Doc: strip(d)})
	}
	for i := range out {
		out[i].Mode = "minimal"
	}
	base := append([]c10Doc{}, out...)
	for _, d := range base {
		if strings.HasPrefix(d.Name, "fam:") || strings.HasPrefix(d.Name, "string") || d.Name == "no-operationId" {
			out = append(out, c10Doc{Name: d.Name + " [yaml]", Doc: d.Doc, YAML: true, Mode: "minimal"})
		}
	}
	for _, d := range base {
		if tier == "thorough" || strings.HasPrefix(d.Name, "synth:") || d.Name == "no-operationId" || strings.Contains(d.Name, "defs=") || strings.Contains(d.Name, "body=") || strings.Contains(d.Name, "response=") {
			out = append(out, c10Doc{Name: d.Name + " [full]", Doc: d.Doc, Mode: "full"}, c10Doc{Name: d.Name + " [expand]", Doc: d.Doc, Mode: "expand"})
		}
	}
	return out
}

func expandedJSON(dir, name string, raw []byte) (J, error) {
	p := filepath.Join(dir, name)
	if err := os.WriteFile(p, raw, 0o644); err != nil {
		return nil, err
	}
	d, err := loads.Spec(p)
	if err != nil {
		return nil, err
	}
	e, err := d.Expanded()
	if err != nil {
		return nil, err
	}
	b, err := json.Marshal(e.Spec())
	if err != nil {
		return nil, err
	}
	var out J
	err = json.Unmarshal(b, &out)
	return out, err
}

func dropKeys(v interface{}, keys map[string]bool) interface{} {
	switch t := v.(type) {
	case map[string]interface{}:
		o := J{}
		for k, x := range t {
			if keys[k] {
				continue
			}
			o[k] = dropKeys(x, keys)
		}
		return o
	case []interface{}:
		o := make([]interface{}, len(t))
		for i, x := range t {
			o[i] = dropKeys(x, keys)
		}
		return o
	}
	return v
}

func RunC10(tier, replay string) int {
	quietLogs()
	r := evid.New("C10", tier)
	r.Rule = "documents = every 1-feature member of the 9-slot spec family (parameters, bodies, responses, definition graphs incl. cycles, metadata, extensions), inline body/response schemas from grammar G contexts x representative leaves (the shapes that make model planning rewrite the loaded document), 24 hostile string contents (backticks, quotes, control and non-ASCII characters, template and format verbs) in description/summary/default/enum/extension positions, definitions named like generator-synthesised names; x input format {JSON, YAML} x flatten mode {minimal, full, expand}. Each is generated by the real `swagger generate server`, COMPILED; restapi.SwaggerJSON, GET /swagger.json and restapi.FlatSwaggerJSON are read from the running code. distinct = (document, format, mode); non-trivial = all three blobs compared"
	r.Assume = []string{"$ref resolution by go-openapi/spec.ExpandSpec on both sides", "x-go-gen-location (added by flatten) is ignored in the flattened document"}
	s := NewScratch("C10")
	defer s.Close()
	docs := c10Documents(tier)
	if replay != "" {
		r.Replay = true
		var rep struct {
			Case c10Doc `json:"case"`
		}
		if err := readJSONFile(replay, &rep); err != nil {
			fmt.Fprintln(os.Stderr, err)
			return 2
		}
		docs = []c10Doc{rep.Case}
	}
	// every document of the universe must be a valid spec: otherwise the universe itself is wrong
	okDoc := make([]bool, len(docs))
	parallel(len(docs), runtime.NumCPU(), func(_, i int) {
		if i > 0 && docs[i].Mode != "minimal" || docs[i].YAML {
			okDoc[i] = true // same document as its minimal/JSON twin
			return
		}
		if err := validSpec(docs[i].Doc); err != nil {
			r.HarnessError("document %s of the universe is not a valid spec: %v", docs[i].Name, err)
			return
		}
		okDoc[i] = true
	})
	specs := make([]ServerSpec, len(docs))
	for i, d := range docs {
		var args []string
		switch d.Mode {
		case "full":
			args = []string{"--with-flatten=full"}
		case "expand":
			args = []string{"--with-expand"}
		}
		specs[i] = ServerSpec{Doc: d.Doc, YAML: d.YAML, Args: args}
	}
	r.Extra["documents"] = len(docs)
	if replay == "" {
		c10Mains(r, s)
	}
	cases := GenServersSpec(s, specs)
	BuildServers(s, cases)
	parallel(len(cases), runtime.NumCPU(), func(w, i int) {
		c, d := cases[i], docs[i]
		key := d.Name + "|" + d.Mode
		sample := map[string]interface{}{"doc": d.Name, "yaml": d.YAML, "mode": d.Mode}
		if c.GenErr != "" {
			// generation refusing a document is C01's business; only counted here
			r.Count("generation_errors(C01)", 1)
			r.Note("generation error %s [%s]: %s", d.Name, d.Mode, trunc(c.GenErr, 300))
			r.CaseKeyed(key, sample, false, "generation-error")
			return
		}
		if c.Bin == "" {
			r.Count("build_failures(C01)", 1)
			r.Note("build failure %s: %s", d.Name, firstLine(c.BuildErr))
			r.CaseKeyed(key, sample, false, "build-failure")
			return
		}
		viol := func(blob, what string, obs interface{}) {
			cls := d.Name
			if j := strings.Index(cls, ":"); j > 0 {
				cls = cls[:j]
			}
			sig := fmt.Sprintf("%s | %s | %s | %s", blob, cls, d.Mode, pathClass(what))
			switch {
			case d.Mode == "expand" && blob != "FlatSwaggerJSON" && strings.Contains(what, "$ref (only left)"):
				sig = "X1 expand mode: the embedded ORIGINAL document has its $refs expanded"
			case blob != "FlatSwaggerJSON" && strings.Contains(what, "(only left)") && explicitFalseAt(d.Doc, what):
				sig = "X2 explicit false-valued boolean dropped from the embedded original"
			}
			r.Violate(evid.Violation{Signature: sig, What: fmt.Sprintf("[%s, mode %s, yaml=%v] %s: %s", d.Name, d.Mode, d.YAML, blob, what), Case: d, Observed: obs})
		}
		orig, flat, err := c.EmbeddedSpecs(s)
		if err != nil {
			if strings.Contains(err.Error(), "embedded spec:") {
				// the compiled server cannot even load the documents embedded in it
				viol("embedded documents", "the generated server cannot load its embedded documents (loads.Embedded fails): "+trunc(err.Error(), 200), nil)
				r.CaseKeyed(key, sample, true, "embedded-unloadable")
				return
			}
			r.HarnessError("%s: %v", d.Name, err)
			return
		}
		// the input as the toolkit loads it
		in, err := loads.Spec(c.SpecPath)
		if err != nil {
			r.HarnessError("%s: input does not load: %v", d.Name, err)
			return
		}
		var inV, origV, flatV interface{}
		_ = json.Unmarshal(in.Raw(), &inV)
		if err := json.Unmarshal(orig, &origV); err != nil {
			viol("SwaggerJSON", "embedded original document is not valid JSON: "+err.Error(), trunc(string(orig), 400))
			r.CaseKeyed(key, sample, true, "bad-json")
			return
		}
		if err := json.Unmarshal(flat, &flatV); err != nil {
			viol("FlatSwaggerJSON", "embedded flattened document is not valid JSON: "+err.Error(), trunc(string(flat), 400))
			r.CaseKeyed(key, sample, true, "bad-json")
			return
		}
		outcome := "equal"
		if fd := firstDiff(inV, origV, ""); fd != "" {
			outcome = "orig-differs"
			viol("SwaggerJSON", "embedded original document differs from the input at "+fd, nil)
		}
		// served document
		res, err := c.Exec(s, []HTTPReq{{Method: "GET", URL: basePathOf(d.Doc) + "/swagger.json"}, {Method: "GET", URL: "/swagger.json"}})
		if err != nil {
			r.HarnessError("%s: %v", d.Name, err)
			return
		}
		if res[0].Status != 200 && res[1].Status == 200 {
			res[0] = res[1]
		}
		var servedV interface{}
		if res[0].Status != 200 || json.Unmarshal([]byte(res[0].Body), &servedV) != nil {
			outcome = "served-bad"
			viol("GET /swagger.json", fmt.Sprintf("status %d, body not JSON", res[0].Status), trunc(res[0].Body, 300))
		} else if fd := firstDiff(inV, servedV, ""); fd != "" {
			outcome = "served-differs"
			viol("GET /swagger.json", "served document differs from the input at "+fd, nil)
		}
		// flattened document, refs resolved on both sides
		wdir := filepath.Join(s.Dir, fmt.Sprintf("exp%d", w))
		_ = os.MkdirAll(wdir, 0o755)
		ein, err1 := expandedJSON(wdir, "in.json", in.Raw())
		efl, err2 := expandedJSON(wdir, "flat.json", flat)
		if err1 != nil || err2 != nil {
			if err1 == nil && err2 != nil {
				outcome = "flat-unexpandable"
				viol("FlatSwaggerJSON", "flattened document cannot be expanded while the input can: "+err2.Error(), nil)
			}
			r.CaseKeyed(key, sample, true, outcome)
			return
		}
		if hasRefCycle(d.Doc) {
			// recursive references can only be compared by name, which only minimal flatten preserves;
			// the expander unrolls cycles to an unspecified depth, so no expansion is used here
			if d.Mode != "minimal" {
				r.Count("flat_comparison_skipped(recursive refs under full/expand)", 1)
				r.CaseKeyed(key, sample, true, outcome)
				return
			}
			ign := map[string]bool{"x-go-gen-location": true}
			var inJ, flJ J
			_ = json.Unmarshal(in.Raw(), &inJ)
			_ = json.Unmarshal(flat, &flJ)
			for _, sec := range []string{"paths", "definitions", "parameters", "responses", "security", "securityDefinitions"} {
				if fd := firstDiff(normalizeOrNil(dropKeys(inJ[sec], ign)), normalizeOrNil(dropKeys(flJ[sec], ign)), "/"+sec); fd != "" {
					outcome = "flat-differs"
					viol("FlatSwaggerJSON", "flattened document (recursive, compared by name) differs from the input at "+fd, nil)
					break
				}
			}
			r.CaseKeyed(key, sample, true, outcome)
			return
		}
		ign := map[string]bool{"x-go-gen-location": true}
		for _, sec := range []string{"paths", "parameters", "responses", "security", "securityDefinitions", "consumes", "produces", "schemes", "host", "basePath", "info", "tags"} {
			a, b := dropKeys(ein[sec], ign), dropKeys(efl[sec], ign)
			if fd := firstDiff(normalizeOrNil(a), normalizeOrNil(b), "/"+sec); fd != "" {
				outcome = "flat-differs"
				viol("FlatSwaggerJSON", "flattened document (refs resolved) differs from the input (refs resolved) at "+fd, nil)
				break
			}
		}
		if idefs, ok := ein["definitions"].(J); ok {
			fdefs, _ := efl["definitions"].(J)
			for _, name := range sortedKeys(idefs) {
				a, b := dropKeys(idefs[name], ign), dropKeys(fdefs[name], ign)
				if fd := firstDiff(normalizeOrNil(a), normalizeOrNil(b), "/definitions/"+name); fd != "" {
					outcome = "flat-differs"
					viol("FlatSwaggerJSON", "definition (refs resolved) differs from the input at "+fd, nil)
					break
				}
			}
		}
		r.CaseKeyed(key, sample, true, outcome)
	})
	return r.Finish()
}

// explicitFalseAt reports whether the first-difference path of `what` addresses a boolean false in doc.
func explicitFalseAt(doc J, what string) bool {
	i := strings.Index(what, " at /")
	if i < 0 {
		return false
	}
	p := what[i+5:]
	if j := strings.Index(p, " ("); j > 0 {
		p = p[:j]
	}
	// paths contain keys with slashes ("/a"): walk greedily
	var cur interface{} = doc
	rest := p
	for rest != "" {
		m, ok := cur.(map[string]interface{})
		if !ok {
			l, ok := cur.([]interface{})
			if !ok {
				return false
			}
			seg := rest
			if k := strings.Index(rest, "/"); k >= 0 {
				seg, rest = rest[:k], rest[k+1:]
			} else {
				rest = ""
			}
			var idx int
			if _, err := fmt.Sscanf(seg, "%d", &idx); err != nil || idx >= len(l) {
				return false
			}
			cur = l[idx]
			continue
		}
		found := false
		for k := range m {
			if rest == k || strings.HasPrefix(rest, k+"/") {
				cur = m[k]
				rest = strings.TrimPrefix(strings.TrimPrefix(rest, k), "/")
				found = true
				break
			}
		}
		if !found {
			return false
		}
	}
	b, ok := cur.(bool)
	return ok && !b
}

func hasRefCycle(doc J) bool {
	defs, _ := doc["definitions"].(J)
	refs := func(v interface{}) []string {
		var out []string
		var walk func(v interface{})
		walk = func(v interface{}) {
			switch t := v.(type) {
			case map[string]interface{}:
				if r, ok := t["$ref"].(string); ok {
					out = append(out, strings.TrimPrefix(r, "#/definitions/"))
				}
				for _, x := range t {
					walk(x)
				}
			case []interface{}:
				for _, x := range t {
					walk(x)
				}
			}
		}
		walk(v)
		return out
	}
	state := map[string]int{}
	var visit func(n string) bool
	visit = func(n string) bool {
		if state[n] == 1 {
			return true
		}
		if state[n] == 2 {
			return false
		}
		state[n] = 1
		for _, m := range refs(defs[n]) {
			if visit(m) {
				return true
			}
		}
		state[n] = 2
		return false
	}
	for n := range defs {
		if visit(n) {
			return true
		}
	}
	return false
}

func normalizeOrNil(v interface{}) interface{} {
	if v == nil {
		return nil
	}
	return normalizeJSON(v)
}

func basePathOf(d J) string {
	if b, ok := d["basePath"].(string); ok && b != "/" {
		return strings.TrimSuffix(b, "/")
	}
	return ""
}

// pathClass reduces a first-difference path to its class (digits and names collapsed).
func pathClass(what string) string {
	i := strings.Index(what, " at /")
	if i < 0 {
		return "-"
	}
	p := what[i+4:]
	if j := strings.Index(p, " ("); j > 0 {
		p = p[:j]
	}
	parts := strings.Split(p, "/")
	if len(parts) > 4 {
		parts = append(parts[:2], parts[len(parts)-2:]...)
	}
	return strings.Join(parts, "/")
}


// c10Mains: the generated server PROGRAM (cmd/<name>-server/main.go) for every flag strategy is built,
// started on a loopback port and asked for /swagger.json: it must serve the input document. Two documents:
// one whose flattened form equals the original up to refs, one that flattening rewrites (inline schemas).
func c10Mains(r *evid.Run, s *Scratch) {
	plain := baseDoc()
	inline := baseDoc()
	at(inline, "paths", "/a")["post"] = J{"operationId": "postA", "parameters": A{J{"in": "body", "name": "body", "schema": J{"type": "object", "properties": J{"x": J{"type": "string"}, "n": J{"type": "object", "properties": J{"d": J{"type": "number"}}}}}}},
		"responses": J{"201": J{"description": "c", "schema": J{"type": "array", "items": J{"type": "object", "properties": J{"y": J{"type": "integer"}}}}}}}
	type job struct {
		name     string
		doc      J
		strategy string
	}
	var jobs []job
	for _, st := range []string{"go-flags", "pflag", "flag"} {
		jobs = append(jobs, job{"base", plain, st}, job{"inline-schemas", inline, st})
	}
	parallel(len(jobs), 6, func(_, i int) {
		j := jobs[i]
		key := "main|" + j.name + "|" + j.strategy
		sample := map[string]interface{}{"doc": j.name, "flag_strategy": j.strategy, "served_by": "generated main program"}
		dir := filepath.Join(s.Dir, fmt.Sprintf("main%02d", i))
		must(os.MkdirAll(dir, 0o755))
		sp := filepath.Join(dir, "swagger.json")
		must(os.WriteFile(sp, prettyJSON(j.doc), 0o644))
		if res := s.Generate("server", sp, dir, "--name", "verifapp", "--flag-strategy", j.strategy); res.Err != nil {
			r.Count("generation_errors(C01)", 1)
			r.Note("generation error main %s/%s: %s", j.name, j.strategy, lastLines(res.Out, 3))
			r.CaseKeyed(key, sample, false, "generation-error")
			return
		}
		bin := filepath.Join(dir, "server.bin")
		if b := s.Build(bin, "./"+filepath.Base(dir)+"/cmd/verifapp-server"); b.Err != nil {
			r.Count("build_failures(C01)", 1)
			r.Note("build failure main %s/%s: %s", j.name, j.strategy, lastLines(b.Out, 3))
			r.CaseKeyed(key, sample, false, "build-failure")
			return
		}
		served, err := fetchFromProgram(bin, "/swagger.json")
		if err != nil {
			r.HarnessError("generated server program %s/%s: %v", j.name, j.strategy, err)
			return
		}
		var got interface{}
		_ = json.Unmarshal(served, &got)
		out := "serves-input"
		if !jsonEqual(normalizeJSON(j.doc), got) {
			out = "VIOLATION"
			fd := firstDiff(normalizeJSON(j.doc), got, "")
			r.Violate(evid.Violation{Signature: fmt.Sprintf("generated main serves another document | %s | %s", j.name, j.strategy), What: fmt.Sprintf("[%s, --flag-strategy %s] the generated server program answers GET /swagger.json with a document that differs from the input at %s", j.name, j.strategy, fd),
				Case: c10Doc{Name: "main:" + j.name + ":" + j.strategy, Doc: j.doc, Mode: "minimal"}})
		}
		r.CaseKeyed(key, sample, true, out)
	})
}

// fetchFromProgram starts a generated server binary on a free loopback port and GETs one route.
func fetchFromProgram(bin, route string) ([]byte, error) {
	var lastErr error
	for attempt := 0; attempt < 3; attempt++ {
		l, err := net.Listen("tcp", "127.0.0.1:0")
		if err != nil {
			return nil, err
		}
		port := l.Addr().(*net.TCPAddr).Port
		_ = l.Close()
		cmd := exec.Command(bin, "--host=127.0.0.1", fmt.Sprintf("--port=%d", port))
		var logs bytes.Buffer
		cmd.Stdout, cmd.Stderr = &logs, &logs
		if err := cmd.Start(); err != nil {
			return nil, err
		}
		done := make(chan struct{})
		go func() { _ = cmd.Wait(); close(done) }()
		url := fmt.Sprintf("http://127.0.0.1:%d%s", port, route)
		deadline := time.Now().Add(60 * time.Second)
		var body []byte
		for time.Now().Before(deadline) {
			resp, err := http.Get(url)
			if err == nil {
				body, err = io.ReadAll(resp.Body)
				_ = resp.Body.Close()
				if err == nil && resp.StatusCode == 200 {
					break
				}
				lastErr = fmt.Errorf("GET %s: status %d: %s", url, resp.StatusCode, trunc(string(body), 200))
				body = nil
				break
			}
			lastErr = err
			select {
			case <-done:
				lastErr = fmt.Errorf("server exited: %s", trunc(logs.String(), 400))
				deadline = time.Now()
			default:
				time.Sleep(150 * time.Millisecond)
			}
		}
		_ = cmd.Process.Kill()
		<-done
		if body != nil {
			return body, nil
		}
	}
	return nil, lastErr
}
