package props

import (
	"fmt"
	"os"
)

var workerModes = map[string]func(args []string) int{}

func workerMain(args []string) int {
	if len(args) == 0 {
		fmt.Fprintln(os.Stderr, "worker: missing mode")
		return 2
	}
	f, ok := workerModes[args[0]]
	if !ok {
		fmt.Fprintf(os.Stderr, "worker: unknown mode %s\n", args[0])
		return 2
	}
	return f(args[1:])
}
