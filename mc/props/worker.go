package props

import (
	"fmt"
	"os"
	"path/filepath"

	"verif/mc/instrument"
)

var workerModes = map[string]func(args []string) int{}

func workerMain(args []string) int {
	if len(args) == 0 {
		fmt.Fprintln(os.Stderr, "worker: missing mode")
		return 2
	}
	f, ok := workerModes[args[0]]
	if !ok {
		fmt.Fprintf(os.Stderr, "worker: unknown mode %s\n", args[0])
		return 2
	}
	return f(args[1:])
}

func init() {
	workerModes["instrument"] = func(args []string) int {
		if len(args) < 1 {
			fmt.Fprintln(os.Stderr, "usage: instrument <outdir> [sched]")
			return 2
		}
		res, err := instrument.Run(instrument.Options{Repo: RepoDir(), OutDir: args[0], VrtSource: filepath.Join(os.Getenv("VERIF_ROOT"), "mc", "rt", "vrt.go.src"),
			Patterns: []string{"./generator/...", "./codescan/...", "./cmd/swagger/..."}, Scheduler: len(args) > 1 && args[1] == "sched"})
		if err != nil {
			fmt.Fprintln(os.Stderr, err)
			return 1
		}
		fmt.Printf("sites=%d skipped=%d watched=%d overlay=%s\n", len(res.Sites), len(res.Skipped), len(res.WatchedVars), res.Overlay)
		for _, s := range res.Skipped {
			fmt.Println("skipped:", s)
		}
		for _, w := range res.WatchedVars {
			fmt.Println("watched:", w)
		}
		return 0
	}
}
