package props

import (
	"encoding/json"
	"fmt"
	"os"
	"strings"
	"time"

	"verif/mc/evid"
)

// C02 — generated model validation agrees with the schema.
// C05 — model JSON round-trips without loss.  Both run on the same generated universe.

func isZeroJSON(v interface{}) bool {
	switch t := v.(type) {
	case string:
		return t == ""
	case float64:
		return t == 0
	case bool:
		return !t
	case nil:
		return true
	case []interface{}:
		return len(t) == 0
	case map[string]interface{}:
		return len(t) == 0
	}
	return false
}

func isScalarZero(v interface{}) bool {
	switch t := v.(type) {
	case string:
		return t == ""
	case float64:
		return t == 0
	case bool:
		return !t
	}
	return false
}

type rewriteOpts struct {
	dropUndeclared bool // tolerance (i)
	dropZero       bool // tolerance (ii): scalar zero values of optional / required+(readOnly|default|non-nullable) properties
	dropZeroAll    bool // C05 normaliser: optional zero values of any kind (incl. empty containers, null)
	strict         bool // --strict-additional-properties: (i) is off where additionalProperties is false
	nullAsEmpty    bool // C03/C04: a nil slice and an empty slice are the same Go value for a handler: null under an array schema reads []
	nullArrays     bool // C05: "an absent array may be rendered as null": a null under an array schema is dropped
}

// declaredProps returns the properties declared by s (through allOf and $ref) and its additionalProperties.
func declaredProps(s J, root J) (props map[string]J, required map[string]bool, addl J, addlAllowed bool, addlExplicitFalse bool) {
	props = map[string]J{}
	required = map[string]bool{}
	var walk func(s J, depth int)
	walk = func(s J, depth int) {
		s = resolveRef(s, root)
		if depth > 5 {
			return
		}
		if p, ok := s["properties"].(J); ok {
			for k, v := range p {
				props[k] = v.(J)
			}
		}
		if r, ok := s["required"].([]interface{}); ok {
			for _, x := range r {
				required[fmt.Sprint(x)] = true
			}
		}
		switch ap := s["additionalProperties"].(type) {
		case map[string]interface{}:
			addl, addlAllowed = ap, true
		case bool:
			if ap {
				addlAllowed = true
			} else {
				addlExplicitFalse = true
			}
		}
		if all, ok := s["allOf"].([]interface{}); ok {
			for _, m := range all {
				walk(m.(J), depth+1)
			}
		}
	}
	walk(s, 0)
	return
}

func rewriteDoc(s J, root J, doc interface{}, o rewriteOpts) interface{} {
	s = resolveRef(s, root)
	if o.nullAsEmpty && doc == nil && s["type"] == "array" {
		return []interface{}{}
	}
	switch d := doc.(type) {
	case map[string]interface{}:
		props, required, addl, addlAllowed, addlFalse := declaredProps(s, root)
		out := J{}
		for k, v := range d {
			ps, declared := props[k]
			switch {
			case declared:
				psr := resolveRef(ps, root)
				_, hasDefault := psr["default"]
				if _, ok := ps["default"]; ok {
					hasDefault = true
				}
				if o.nullArrays && v == nil && psr["type"] == "array" {
					continue
				}
				ro := psr["readOnly"] == true || ps["readOnly"] == true
				nn := ps["x-nullable"] == false || psr["x-nullable"] == false
				canDrop := !required[k] || ro || hasDefault || nn
				if o.dropZero && canDrop && isScalarZero(v) {
					continue
				}
				// bottom-up: a value that becomes empty once its own optional zero members are gone is
				// itself a zero value
				nv := rewriteDoc(ps, root, v, o)
				if o.dropZeroAll && !required[k] && (isZeroJSON(v) || isZeroJSON(nv)) {
					continue
				}
				out[k] = nv
			case addl != nil:
				out[k] = rewriteDoc(addl, root, v, o)
			case addlAllowed:
				out[k] = v
			default:
				if o.dropUndeclared && !(o.strict && addlFalse) {
					continue
				}
				out[k] = v
			}
		}
		return out
	case []interface{}:
		items, _ := s["items"].(J)
		out := make([]interface{}, len(d))
		for i, v := range d {
			if items != nil {
				out[i] = rewriteDoc(items, root, v, o)
			} else {
				out[i] = v
			}
		}
		return out
	}
	return doc
}

// strictImplicit adds additionalProperties:false to every schema object that declares properties and has no
// additionalProperties keyword.
func strictImplicit(v interface{}) interface{} {
	switch t := v.(type) {
	case map[string]interface{}:
		o := make(J, len(t)+1)
		for k, x := range t {
			o[k] = strictImplicit(x)
		}
		if _, isProps := t["properties"].(map[string]interface{}); isProps && t["type"] == "object" {
			if _, has := t["additionalProperties"]; !has {
				o["additionalProperties"] = false
			}
		}
		return o
	case []interface{}:
		o := make([]interface{}, len(t))
		for i, x := range t {
			o[i] = strictImplicit(x)
		}
		return o
	}
	return v
}

// formattedLeaf reports whether an invalidLeaves entry ("type/format[keywords] value v") has a format.
func formattedLeaf(s string) bool {
	i := strings.Index(s, "/")
	j := strings.Index(s, "[")
	return i >= 0 && j > i+1
}

func instanceClass(s J, root J, doc interface{}) string {
	switch d := doc.(type) {
	case map[string]interface{}:
		props, required, _, _, _ := declaredProps(s, root)
		var notes []string
		for k := range required {
			if _, ok := d[k]; !ok {
				notes = append(notes, "missing-required")
			}
		}
		for k, v := range d {
			if _, ok := props[k]; !ok {
				notes = append(notes, "extra-key")
			} else if isZeroJSON(v) {
				notes = append(notes, "zero-value")
			}
		}
		if len(d) == 0 {
			return "empty-object"
		}
		if len(notes) > 0 {
			return strings.Join(sortStrings(notes), "+")
		}
		return "object"
	case []interface{}:
		return fmt.Sprintf("array(len=%d)", len(d))
	case string:
		if d == "" {
			return "empty-string"
		}
		return "string"
	case float64:
		if d == 0 {
			return "zero"
		}
		return "number"
	case bool:
		return "bool"
	case nil:
		return "null"
	}
	return "other"
}

type modelCase struct {
	Def    DefCase     `json:"def"`
	Doc    interface{} `json:"doc"`
	Strict bool        `json:"strict,omitempty"`
}

func modelBounds(tier string) (k, depth int) {
	if tier == "thorough" {
		return 2, 2
	}
	return 1, 1
}

func runModels(prop, tier, replay string) int {
	quietLogs()
	r := evid.New(prop, tier)
	k, depth := modelBounds(tier)
	if prop == "C02" {
		r.Rule = fmt.Sprintf("definitions = leaf (type x format x <=%d validation keywords from 2-3 value domains) wrapped in a chain of <=%d contexts out of 25 (required/optional property, array, map, allOf member, $ref, property modifiers readOnly/default/x-nullable/x-omitempty, container keywords, additionalProperties variants), enumerated completely; instances = base value with at most one deviation per definition (boundary triples of every constraint, zero values, wrong types, missing required, undeclared keys, container sizes 0-3, duplicates, valid/invalid format literals). Each instance is decoded and validated by the COMPILED generated model and by go-openapi/validate on the input definition. distinct = (definition, instance); non-trivial = verdicts compared without needing any tolerance", k, depth)
		r.Assume = []string{"reference validator: go-openapi/validate.NewSchemaValidator on the input definition rooted at the input document", "documented tolerances applied as explicit document rewrites and counted: (i) undeclared properties dropped where additionalProperties is absent/false and strict mode is off, (ii) scalar zero values of optional / required+(readOnly|default|x-nullable:false) properties dropped", "null instances and out-of-format-range integers are outside the alphabet"}
	} else {
		r.Rule = fmt.Sprintf("same definition universe as C02 (k<=%d, depth<=%d); instances = the candidate documents the reference validator accepts; each is decoded and re-encoded by the COMPILED generated model; compared after the documented normalisation, plus required-keys-kept, nothing-added and byte-idempotence of a second round trip. distinct = (definition, instance); non-trivial = document with at least one non-zero declared value", k, depth)
		r.Assume = []string{"encoding/json and the Go compiler are trusted", "normaliser drops only: optional properties holding a zero value (0, \"\", false, empty/null container), undeclared properties where additionalProperties is absent/false"}
	}
	s := NewScratch(prop)
	defer s.Close()

	var defs []DefCase
	if replay != "" {
		r.Replay = true
		var rep struct {
			Case modelCase `json:"case"`
		}
		if err := readJSONFile(replay, &rep); err != nil {
			fmt.Fprintln(os.Stderr, err)
			return 2
		}
		defs = []DefCase{rep.Case.Def}
		run, err := BuildModels(s, defs, 50)
		if err != nil {
			fmt.Fprintln(os.Stderr, "HARNESS:", err)
			return 2
		}
		docs := []interface{}{normalizeJSON(rep.Case.Doc)}
		if rep.Case.Def.Exact {
			// number literals matter: take the documents of the family member with this description
			for _, sp := range SpecialDefs() {
				if sp.Def.Desc == rep.Case.Def.Desc {
					want := string(mustJSON(normalizeJSON(rep.Case.Doc)))
					for _, d := range sp.Docs {
						if string(mustJSON(normalizeJSON(decodeNumber(mustJSON(d))))) == want {
							docs = []interface{}{d}
						}
					}
				}
			}
		}
		evalModels(r, prop, run, defs, func(d DefCase) []interface{} { return docs }, false)
		return r.Finish()
	}

	defs, st := EnumerateDefs(k, depth, "D")
	// container stacks of length 2-3 (quick) / 3 (thorough: length 2 is already in the depth-2 grammar)
	minStack := 2
	if depth >= 2 {
		minStack = 3
	}
	stacks := EnumerateStackDefs("K", minStack, 3)
	r.Extra["container_stack_definitions"] = len(stacks)
	defs = append(defs, stacks...)
	defs = append(defs, DeepRefDefs("R")...)
	r.Extra["definitions"] = len(defs)
	r.Extra["choice_points"] = st.Points
	r.Extra["bound_completed"] = fmt.Sprintf("k<=%d keywords per leaf, context chains of length <=%d, one deviation per instance", k, depth)
	run, err := BuildModels(s, defs, 50)
	if err != nil {
		r.HarnessError("%v", err)
		return r.Finish()
	}
	r.Extra["generate_seconds"] = run.GenSeconds
	r.Extra["build_seconds"] = run.BuildSecs
	r.Count("definitions_dropped(generation or compile failure; reported by C01)", len(run.Dropped))
	if len(run.Dropped) > 0 {
		n := 0
		for name, why := range run.Dropped {
			if n < 5 {
				r.Note("dropped %s: %s", name, why)
			}
			n++
		}
	}
	for _, e := range run.GenErrors {
		r.HarnessError("%s", e)
	}
	evalModels(r, prop, run, defs, Instances, false)

	if prop == "C05" {
		// the shapes grammar G does not produce: tuples, polymorphic hierarchies through the base type,
		// allOf members that are maps, property names that are not Go identifiers
		sp := SpecialDefs()
		var sdefs []DefCase
		for _, x := range sp {
			sdefs = append(sdefs, x.Def)
		}
		s3 := NewScratch(prop + "x")
		defer s3.Close()
		run3, err := BuildModels(s3, sdefs, 12)
		if err != nil {
			r.HarnessError("special family: %v", err)
		} else {
			r.Extra["special_definitions"] = len(sdefs)
			r.Count("special_definitions_dropped(generation or compile failure; reported by C01)", len(run3.Dropped))
			for name, why := range run3.Dropped {
				for _, x := range sp {
					if x.Def.Name == name {
						r.Note("special dropped %s: %s", x.Def.Desc, why)
					}
				}
			}
			evalModels(r, prop, run3, sdefs, specialDocsOf(sp), false)
		}
	}

	if prop == "C02" {
		// strict mode: additionalProperties:false must reject undeclared keys
		var strictDefs []DefCase
		for _, d := range defs {
			// allOf compositions are outside the strict-mode alphabet: the generator flattens the members into
			// one struct, for which "undeclared" has no JSON-schema counterpart per member
			// objects with properties and min/maxProperties: the generator keeps their undeclared keys on purpose (it
			// has to count them), whether that object is "strict" is not pinned by the documentation or the tests
			if strings.Contains(d.Chain, "addl-false") && !strings.Contains(d.Chain, "allOf") && !strings.Contains(d.Chain, "props+minProps") && !strings.Contains(d.Chain, "props+maxProps") {
				strictDefs = append(strictDefs, d)
			}
		}
		if len(strictDefs) > 0 {
			s2 := NewScratch(prop + "s")
			defer s2.Close()
			run2, err := BuildModels(s2, strictDefs, 50, "--strict-additional-properties")
			if err != nil {
				r.HarnessError("strict mode: %v", err)
			} else {
				evalModels(r, prop, run2, strictDefs, Instances, true)
			}
		}
	}
	return r.Finish()
}

func evalModels(r *evid.Run, prop string, run *ModelRun, defs []DefCase, inst func(DefCase) []interface{}, strict bool) {
	var reqs []ModelReq
	type meta struct {
		d   DefCase
		doc interface{}
	}
	var metas []meta
	for _, d := range defs {
		if _, dropped := run.Dropped[d.Name]; dropped {
			continue
		}
		if _, ok := run.TypeOf[d.Name]; !ok {
			continue
		}
		for _, doc := range inst(d) {
			if doc == nil {
				continue // null is outside the alphabet
			}
			reqs = append(reqs, ModelReq{Def: d.Name, Doc: mustJSON(doc)})
			metas = append(metas, meta{d, doc})
		}
	}
	results, err := run.ExecParallel(reqs)
	if err != nil {
		r.HarnessError("%v", err)
		return
	}
	parallel(len(results), 16, func(_, i int) {
		m, res := metas[i], results[i]
		root := J{"definitions": m.d.Defs()}
		schema := m.d.Schema
		if strict {
			// --strict-additional-properties treats an object that declares properties and says nothing about
			// additionalProperties like additionalProperties:false (the repository's own
			// TestGenModel_StrictAdditionalProperties asserts this for its "Implicit" object); the reference
			// schema is rewritten accordingly
			schema = strictImplicit(schema).(J)
			root = strictImplicit(root).(J)
		}
		cs := modelCase{Def: m.d, Doc: m.doc, Strict: strict}
		key := fmt.Sprintf("%s|%s|%v", m.d.Name, mustJSON(m.doc), strict)
		sample := map[string]interface{}{"def": m.d.Desc, "schema": m.d.Schema, "doc": m.doc}
		if res.Panic != "" {
			r.Violate(evid.Violation{Signature: "panic " + m.d.Chain + " | " + m.d.Kw, What: fmt.Sprintf("generated code panics on %s for %s: %s", mustJSON(m.doc), m.d.Desc, firstLine(res.Panic)), Case: cs, Observed: res.Panic})
			r.CaseKeyed(key, sample, true, "panic")
			return
		}
		if res.NoType {
			return
		}
		gen := res.UnmarshalErr == "" && res.ValidateErr == ""
		ref := refValid(schema, root, m.doc)
		if prop == "C02" {
			outcome := ""
			switch {
			case gen == ref:
				outcome = fmt.Sprintf("agree(%v)", gen)
			default:
				d1 := rewriteDoc(schema, root, m.doc, rewriteOpts{dropUndeclared: true, strict: strict})
				d2 := rewriteDoc(schema, root, m.doc, rewriteOpts{dropZero: true, strict: strict})
				d12 := rewriteDoc(schema, root, m.doc, rewriteOpts{dropUndeclared: true, dropZero: true, strict: strict})
				switch {
				case !jsonEqual(d1, m.doc) && refValid(schema, root, d1) == gen:
					outcome = "agree-via-tolerance(i:undeclared-ignored)"
				case !jsonEqual(d2, m.doc) && refValid(schema, root, d2) == gen:
					outcome = "agree-via-tolerance(ii:zero-as-absent)"
				case !jsonEqual(d12, m.doc) && refValid(schema, root, d12) == gen:
					outcome = "agree-via-tolerance(i+ii)"
				default:
					outcome = "DISAGREE"
					dir := "generated model ACCEPTS a document the schema rejects"
					if !gen {
						dir = "generated model REJECTS a document the schema accepts"
					}
					ic := instanceClass(schema, root, m.doc)
					sig := fmt.Sprintf("%s | %s | %s | gen=%v", m.d.Chain, m.d.Kw, ic, gen)
					if gen {
						// the generated model accepts: if exactly one leaf value is invalid for its leaf
						// schema, that (leaf type, value) pair is the signature whatever the context
						// ... provided the leaf carries a format: format leniency lives in strfmt and does not
						// depend on the context, any other lost validation is reported per context chain
						if bad := invalidLeaves(schema, root, m.doc, nil); len(bad) == 1 && formattedLeaf(bad[0]) {
							sig = "accepts-invalid-leaf " + bad[0]
						}
					}
					if strict && !strings.HasPrefix(sig, "accepts-invalid-leaf") {
						sig = "strict " + sig
					}
					r.Violate(evid.Violation{Signature: sig,
						What:     fmt.Sprintf("%s: definition %s, document %s (unmarshal: %q, Validate: %q)", dir, m.d.Desc, mustJSON(m.doc), res.UnmarshalErr, res.ValidateErr),
						Case:     cs,
						Observed: map[string]interface{}{"generated_accepts": gen, "unmarshal_err": res.UnmarshalErr, "validate_err": res.ValidateErr},
						Expected: map[string]interface{}{"reference_accepts": ref}})
				}
			}
			r.CaseKeyed(key, sample, strings.HasPrefix(outcome, "agree("), outcome)
			return
		}
		// ---- C05
		if m.d.Exact {
			// special family: hand-enumerated valid documents without zero-valued optionals or undeclared
			// keys; the round trip must reproduce the document exactly (numbers digit by digit)
			outcome := "exact-roundtrip"
			xviol := func(kind, what string) {
				outcome = kind
				r.Violate(evid.Violation{Signature: fmt.Sprintf("%s | %s | %s | %s", kind, m.d.Chain, m.d.Desc, specialDocTag(m.doc)),
					What: fmt.Sprintf("%s: definition %s, document %s -> %s", what, m.d.Desc, mustJSON(m.doc), string(res.Out)), Case: cs,
					Observed: map[string]interface{}{"out": json.RawMessage(res.Out), "out2": json.RawMessage(res.Out2), "unmarshal_err": res.UnmarshalErr, "marshal_err": res.MarshalErr}})
			}
			switch {
			case !ref:
				r.HarnessError("special-family document is not valid for its schema: %s %s: %s", m.d.Desc, mustJSON(m.doc), validationErrors(m.d.Schema, root, m.doc))
				return
			case res.UnmarshalErr != "":
				xviol("decode-fails", "a document valid for the schema cannot be decoded ("+res.UnmarshalErr+")")
			case res.MarshalErr != "":
				xviol("marshal-error", "encoding fails: "+res.MarshalErr)
			default:
				if eq, diff := exactJSONEqual(mustJSON(m.doc), res.Out); !eq {
					xviol("lossy", "decode+encode changes the document at "+diff)
				} else if string(res.Out) != string(res.Out2) {
					xviol("not-idempotent", "encoding the re-decoded output gives different bytes: "+string(res.Out2))
				} else if res.ValidateErr != "" {
					outcome = "exact-roundtrip(Validate rejects: C02's domain)"
				}
			}
			r.CaseKeyed(key, sample, true, outcome)
			return
		}
		if !ref || !gen {
			return // round trip is demanded for documents valid for the schema (and decodable)
		}
		outcome := "roundtrip"
		viol := func(kind, what string) {
			outcome = kind
			r.Violate(evid.Violation{Signature: fmt.Sprintf("%s | %s | %s", kind, m.d.Chain, leafType(m.d.Kw)),
				What: fmt.Sprintf("%s: definition %s, document %s -> %s", what, m.d.Desc, mustJSON(m.doc), string(res.Out)), Case: cs,
				Observed: map[string]interface{}{"out": json.RawMessage(res.Out), "out2": json.RawMessage(res.Out2), "marshal_err": res.MarshalErr}})
		}
		if res.MarshalErr != "" {
			viol("marshal-error", "encoding fails: "+res.MarshalErr)
		} else {
			var out interface{}
			_ = json.Unmarshal(res.Out, &out)
			// null arrays first (an absent array may be rendered as null), then the schema-directed rewrite
			no := rewriteDoc(m.d.Schema, root, out, rewriteOpts{dropUndeclared: true, dropZeroAll: true, nullArrays: true})
			nd := rewriteDoc(m.d.Schema, root, m.doc, rewriteOpts{dropUndeclared: true, dropZeroAll: true, nullArrays: true})
			// a date-time value is an instant: compare instants, not spellings
			no, nd = canonInstants(m.d.Schema, root, no), canonInstants(m.d.Schema, root, nd)
			switch {
			case !jsonEqual(no, nd):
				fd := firstDiff(normalizeJSON(nd), normalizeJSON(no), "")
				if strings.Contains(fd, "(only right)") && strings.Contains(string(res.Out), "0001-01-01") {
					outcome = "adds-zero-date"
					r.Violate(evid.Violation{Signature: "adds-zero-date " + leafType(m.d.Kw),
						What: fmt.Sprintf("an absent optional %s property is rendered as the zero date: definition %s, document %s -> %s", leafType(m.d.Kw), m.d.Desc, mustJSON(m.doc), string(res.Out)), Case: cs})
				} else {
					viol("lossy", "decode+encode changes a declared value at "+fd)
				}
			case missingRequired(m.d.Schema, root, m.doc, out) != "":
				viol("required-omitted", "required property "+missingRequired(m.d.Schema, root, m.doc, out)+" is omitted from the output")
			case addedKey(m.d.Schema, root, m.doc, out) != "":
				viol("key-added", "output has key "+addedKey(m.d.Schema, root, m.doc, out)+" that neither the document nor the schema declares")
			case string(res.Out) != string(res.Out2):
				viol("not-idempotent", "encoding the re-decoded output gives different bytes: "+string(res.Out2))
			}
		}
		r.CaseKeyed(key, sample, !isZeroJSON(m.doc), outcome)
	})
}

// invalidLeaves lists "<type/format> value <v>" for every scalar of doc that its own leaf schema rejects.
func invalidLeaves(s J, root J, doc interface{}, acc []string) []string {
	s = resolveRef(s, root)
	switch d := doc.(type) {
	case map[string]interface{}:
		props, _, addl, _, _ := declaredProps(s, root)
		for _, k := range sortedKeys(d) {
			if ps, ok := props[k]; ok {
				acc = invalidLeaves(ps, root, d[k], acc)
			} else if addl != nil {
				acc = invalidLeaves(addl, root, d[k], acc)
			}
		}
	case []interface{}:
		if items, ok := s["items"].(J); ok {
			for _, v := range d {
				acc = invalidLeaves(items, root, v, acc)
			}
		}
	default:
		t, _ := s["type"].(string)
		if t == "string" || t == "integer" || t == "number" || t == "boolean" {
			if !refValid(s, root, doc) {
				f, _ := s["format"].(string)
				kws := []string{}
				for _, k := range sortedKeys(s) {
					if k != "type" && k != "format" && k != "default" && !strings.HasPrefix(k, "x-") && k != "readOnly" {
						kws = append(kws, k)
					}
				}
				acc = append(acc, fmt.Sprintf("%s/%s%v value %s", t, f, kws, mustJSON(doc)))
			}
		}
	}
	return acc
}

func leafType(kw string) string {
	if i := strings.Index(kw, ":"); i > 0 {
		return kw[:i]
	}
	return kw
}

func firstLine(s string) string {
	if i := strings.Index(s, "\n"); i > 0 {
		return s[:i]
	}
	return s
}

// canonInstants rewrites every string under a date-time schema to its canonical UTC instant.
func canonInstants(s J, root J, doc interface{}) interface{} {
	s = resolveRef(s, root)
	switch d := doc.(type) {
	case map[string]interface{}:
		props, _, addl, _, _ := declaredProps(s, root)
		o := J{}
		for k, v := range d {
			if ps, ok := props[k]; ok {
				o[k] = canonInstants(ps, root, v)
			} else if addl != nil {
				o[k] = canonInstants(addl, root, v)
			} else {
				o[k] = v
			}
		}
		return o
	case []interface{}:
		items, _ := s["items"].(J)
		o := make([]interface{}, len(d))
		for i, v := range d {
			if items != nil {
				o[i] = canonInstants(items, root, v)
			} else {
				o[i] = v
			}
		}
		return o
	case string:
		if s["format"] == "date-time" {
			if t, err := time.Parse(time.RFC3339Nano, d); err == nil {
				return t.UTC().Format(time.RFC3339Nano)
			}
		}
	}
	return doc
}

// nullArraysAbsent: "an absent array may be rendered as null" - null members are dropped on both sides.
func nullArraysAbsent(v interface{}) interface{} {
	switch t := v.(type) {
	case map[string]interface{}:
		o := J{}
		for k, x := range t {
			if x == nil {
				continue
			}
			o[k] = nullArraysAbsent(x)
		}
		return o
	case []interface{}:
		o := make([]interface{}, len(t))
		for i, x := range t {
			o[i] = nullArraysAbsent(x)
		}
		return o
	}
	return v
}

func missingRequired(s J, root J, doc, out interface{}) string {
	d, ok := doc.(map[string]interface{})
	o, ok2 := out.(map[string]interface{})
	if !ok || !ok2 {
		return ""
	}
	props, required, _, _, _ := declaredProps(s, root)
	for k := range required {
		if _, in := d[k]; in {
			if _, still := o[k]; !still {
				return k
			}
		}
	}
	for k, ps := range props {
		if dv, ok := d[k]; ok {
			if ov, ok := o[k]; ok {
				if m := missingRequired(ps, root, dv, ov); m != "" {
					return k + "." + m
				}
			}
		}
	}
	return ""
}

func addedKey(s J, root J, doc, out interface{}) string {
	d, ok := doc.(map[string]interface{})
	o, ok2 := out.(map[string]interface{})
	if !ok || !ok2 {
		return ""
	}
	props, _, _, _, _ := declaredProps(s, root)
	for k, ov := range o {
		_, inDoc := d[k]
		ps, declared := props[k]
		if !inDoc && !declared {
			return k
		}
		if inDoc && declared {
			if a := addedKey(ps, root, d[k], ov); a != "" {
				return k + "." + a
			}
		}
	}
	return ""
}

// RunC02 and RunC05 are the registry entry points.
func RunC02(tier, replay string) int { return runModels("C02", tier, replay) }
func RunC05(tier, replay string) int { return runModels("C05", tier, replay) }
