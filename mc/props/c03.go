package props

import (
	"encoding/json"
	"fmt"
	"net/http"
	"net/url"
	"os"
	"runtime"
	"sort"
	"strings"
	"time"

	"github.com/go-openapi/spec"

	"verif/mc/evid"
	"verif/mc/refbind"
	"verif/mc/xplore"
)

// C03 — generated server binds and validates requests per the spec.

// OpCase is one operation under test.
type OpCase struct {
	ID     string   `json:"id"`
	Method string   `json:"method"`
	Path   string   `json:"path"` // template
	Params []J      `json:"params"`
	Desc   string   `json:"desc"`
	Class  string   `json:"class"` // signature class: location, type class, container, flags
	Cons   []string `json:"consumes,omitempty"`
	Defs   J        `json:"definitions,omitempty"`
	// ExtraOp overrides parts of the operation object (responses, produces): used by C01/C04
	ExtraOp J `json:"extra_op,omitempty"`
}

type ptype struct {
	Name string
	S    J
}

func c03Types() []ptype {
	return []ptype{
		{"string", J{"type": "string"}}, {"integer", J{"type": "integer"}}, {"number", J{"type": "number"}}, {"boolean", J{"type": "boolean"}},
		{"string/date", J{"type": "string", "format": "date"}}, {"string/date-time", J{"type": "string", "format": "date-time"}},
		{"string/uuid", J{"type": "string", "format": "uuid"}}, {"integer/int32", J{"type": "integer", "format": "int32"}},
		{"integer/uint64", J{"type": "integer", "format": "uint64"}}, {"number/float", J{"type": "number", "format": "float"}},
	}
}

func c03Validations(t string) []J {
	switch {
	case strings.HasPrefix(t, "string/"):
		return []J{nil}
	case t == "string":
		return []J{nil, {"minLength": 1}, {"minLength": 3}, {"maxLength": 2}, {"pattern": "^a+$"}, {"enum": A{"aa", "b"}}, {"maxLength": 0}}
	case strings.HasPrefix(t, "integer"):
		return []J{nil, {"minimum": 1}, {"minimum": 0}, {"maximum": 5}, {"minimum": 1, "exclusiveMinimum": true}, {"maximum": 5, "exclusiveMaximum": true}, {"multipleOf": 2}, {"enum": A{1, 4}}, {"maximum": 0}}
	case strings.HasPrefix(t, "number"):
		return []J{nil, {"minimum": 1.5}, {"maximum": 5.5}, {"minimum": 1.5, "exclusiveMinimum": true}, {"maximum": 5.5, "exclusiveMaximum": true}, {"multipleOf": 0.5}, {"minimum": 0}}
	}
	return []J{nil}
}

var c03Containers = []string{"scalar", "array", "array:csv", "array:ssv", "array:tsv", "array:pipes", "array:multi", "nested"}
var c03ArrayVals = []J{nil, {"minItems": 1}, {"maxItems": 2}, {"uniqueItems": true}, {"minItems": 2, "maxItems": 2}}

func genParamOp(c *xplore.Ctx) OpCase {
	loc := xplore.Pick(c, "in", "query", "path", "header", "formData")
	types := c03Types()
	ty := types[c.Choose(len(types), "type")]
	cont := c03Containers[c.Choose(len(c03Containers), "container")]
	required := c.Bool("required")
	allowEmpty := c.Bool("allowEmptyValue")
	withDefault := c.Bool("default")
	vals := c03Validations(ty.Name)
	val := vals[c.Choose(len(vals), "validation")]
	arrVal := J(nil)
	if cont != "scalar" {
		arrVal = c03ArrayVals[c.Choose(len(c03ArrayVals), "array-validation")]
	}
	innerVal := J(nil)
	if cont == "nested" {
		innerVal = c03ArrayVals[c.Choose(len(c03ArrayVals), "inner-array-validation")]
	}
	if loc == "path" {
		if !required {
			required = true // path parameters are always required: the default choice means "required"
		} else {
			c.Skip()
		}
		if withDefault || allowEmpty {
			c.Skip()
		}
	}
	if allowEmpty && !(loc == "query" || loc == "formData") {
		c.Skip()
	}
	if cont == "array:multi" && !(loc == "query" || loc == "formData") {
		c.Skip()
	}
	if cont == "nested" && loc == "path" {
		c.Skip()
	}
	leaf := merge(ty.S, val)
	p := J{"in": loc, "name": "p"}
	if required {
		p["required"] = true
	}
	if allowEmpty {
		p["allowEmptyValue"] = true
	}
	switch {
	case cont == "scalar":
		for k, v := range leaf {
			p[k] = v
		}
	case cont == "nested":
		p["type"] = "array"
		p["collectionFormat"] = "pipes"
		p["items"] = merge(J{"type": "array", "items": leaf}, innerVal)
	default:
		p["type"] = "array"
		p["items"] = leaf
		if strings.Contains(cont, ":") {
			p["collectionFormat"] = strings.SplitN(cont, ":", 2)[1]
		}
	}
	for k, v := range arrVal {
		p[k] = v
	}
	if withDefault {
		v, ok := validValue(leaf, nil)
		if !ok || v == "" {
			c.Skip()
		}
		if cont == "nested" && (arrVal["uniqueItems"] == true || innerVal != nil) {
			c.Skip() // the nested default below repeats its inner array / has one-element inner arrays
		}
		switch cont {
		case "scalar":
			p["default"] = v
		case "nested":
			p["default"] = A{A{v}, A{v}}
		default:
			dv := A{v}
			if mi, ok := arrVal["minItems"]; ok && fmt.Sprint(mi) == "2" {
				v2 := v
				for _, cnd := range leafCandidates(leaf) {
					if refValid(leaf, J{}, cnd) && !jsonEqual(cnd, v) {
						v2 = cnd
						break
					}
				}
				dv = A{v, v2}
			}
			p["default"] = dv
		}
	}
	method, path := "get", ""
	var cons []string
	if loc == "formData" {
		method = "post"
		cons = []string{"application/x-www-form-urlencoded"}
	}
	if loc == "path" {
		path = "/{p}"
	}
	flags := ""
	if required {
		flags += "R"
	}
	if allowEmpty {
		flags += "E"
	}
	if withDefault {
		flags += "D"
	}
	vk := "-"
	if val != nil {
		vk = strings.Join(sortedKeys(val), "+")
	}
	ak := ""
	if arrVal != nil {
		ak = "/" + strings.Join(sortedKeys(arrVal), "+")
	}
	if innerVal != nil {
		ak += "/inner:" + strings.Join(sortedKeys(innerVal), "+")
	}
	return OpCase{Method: method, Path: path, Params: []J{p}, Cons: cons,
		Desc:  fmt.Sprintf("%s %s %s [%s] val=%s%s", loc, ty.Name, cont, flags, vk, ak),
		Class: fmt.Sprintf("%s | %s | %s | %s | %s%s", loc, ty.Name, cont, flags, vk, ak)}
}

// body and multi-parameter shapes (fixed list)
func c03SpecialOps() []OpCase {
	pet := J{"type": "object", "required": A{"name"}, "properties": J{"name": J{"type": "string", "minLength": 2}, "age": J{"type": "integer", "minimum": 0, "maximum": 150}}}
	defs := J{"Pet": pet}
	var out []OpCase
	body := func(desc string, schema J, required bool) {
		p := J{"in": "body", "name": "body", "schema": schema}
		if required {
			p["required"] = true
		}
		fl := "optional"
		if required {
			fl = "required"
		}
		out = append(out, OpCase{Method: "post", Params: []J{p}, Desc: "body " + desc + " " + fl, Class: "body | " + desc + " | " + fl, Defs: defs, Cons: []string{"application/json"}})
	}
	for _, req := range []bool{true, false} {
		body("model", J{"$ref": "#/definitions/Pet"}, req)
		body("array-of-models", J{"type": "array", "items": J{"$ref": "#/definitions/Pet"}, "maxItems": 2}, req)
		body("map-of-models", J{"type": "object", "additionalProperties": J{"$ref": "#/definitions/Pet"}}, req)
		body("inline-string", J{"type": "string", "minLength": 2}, req)
		body("inline-integer", J{"type": "integer", "maximum": 5}, req)
		body("inline-array", J{"type": "array", "items": J{"type": "integer", "minimum": 1}, "minItems": 1, "uniqueItems": true}, req)
		body("inline-map", J{"type": "object", "additionalProperties": J{"type": "string", "maxLength": 2}}, req)
		body("inline-array-of-arrays", J{"type": "array", "items": J{"type": "array", "minItems": 1, "maxItems": 2, "items": J{"type": "integer"}}}, req)
		body("inline-map-of-arrays-of-arrays", J{"type": "object", "additionalProperties": J{"type": "array", "items": J{"type": "array", "minItems": 1, "uniqueItems": true, "items": J{"type": "string"}}}}, req)
		body("inline-object", J{"type": "object", "required": A{"a"}, "properties": J{"a": J{"type": "string", "enum": A{"x", "y"}}, "n": J{"type": "object", "properties": J{"d": J{"type": "number", "minimum": 0.5}}}}}, req)
	}
	// two parameters
	out = append(out, OpCase{Method: "get", Params: []J{{"in": "query", "name": "p", "type": "integer", "required": true, "maximum": 5}, {"in": "query", "name": "q", "type": "string", "default": "dq"}},
		Desc: "two params required+optional-default", Class: "multi | required+optional"})
	out = append(out, OpCase{Method: "get", Params: []J{{"in": "query", "name": "p", "type": "integer"}, {"in": "header", "name": "X-P", "type": "array", "items": J{"type": "integer"}, "minItems": 1}},
		Desc: "two params query+header array", Class: "multi | query+header"})
	out = append(out, OpCase{Method: "post", Cons: []string{"application/x-www-form-urlencoded"}, Params: []J{{"in": "formData", "name": "p", "type": "boolean", "required": true}, {"in": "query", "name": "q", "type": "array", "collectionFormat": "multi", "items": J{"type": "string", "enum": A{"a", "b"}}}},
		Desc: "two params formData+query multi", Class: "multi | formData+query"})
	return out
}

// c03Requests enumerates the request classes for an operation (reference-model inputs).
func c03Requests(op OpCase) []refbind.Request {
	var out []refbind.Request
	base := refbind.Request{}
	if len(op.Cons) > 0 && op.Cons[0] == "application/x-www-form-urlencoded" {
		base.ContentType = op.Cons[0]
		base.Form = url.Values{}
	}
	set := func(r *refbind.Request, p J, vals ...string) {
		name := p["name"].(string)
		switch p["in"] {
		case "query":
			if r.Query == nil {
				r.Query = url.Values{}
			}
			r.Query[name] = vals
		case "header":
			if r.Header == nil {
				r.Header = http.Header{}
			}
			r.Header[http.CanonicalHeaderKey(name)] = vals
		case "formData":
			if r.Form == nil {
				r.Form = url.Values{}
			}
			r.Form[name] = vals
		case "path":
			if r.Path == nil {
				r.Path = map[string]string{}
			}
			r.Path[name] = vals[len(vals)-1]
		}
	}
	cloneReq := func(r refbind.Request) refbind.Request {
		b, _ := json.Marshal(r)
		var o refbind.Request
		_ = json.Unmarshal(b, &o)
		return o
	}
	// a valid assignment for every parameter (used as background for the others)
	validRaw := map[string][]string{}
	candRaw := map[string][][]string{}
	for _, p := range op.Params {
		if p["in"] == "body" {
			continue
		}
		cands := paramRawCandidates(p)
		candRaw[p["name"].(string)+"|"+p["in"].(string)] = cands
		validRaw[p["name"].(string)+"|"+p["in"].(string)] = nil
		var sp spec.Parameter
		_ = json.Unmarshal(mustJSON(p), &sp)
		for _, c := range cands {
			if c == nil {
				continue
			}
			r := refbind.Request{}
			set(&r, p, c...)
			if res := refbind.Bind([]spec.Parameter{sp}, r, refbind.Options{}); res.Verdict == refbind.Reach {
				validRaw[p["name"].(string)+"|"+p["in"].(string)] = c
				break
			}
		}
	}
	mkBackground := func(except J) refbind.Request {
		r := cloneReq(base)
		for _, p := range op.Params {
			if p["in"] == "body" || (except != nil && p["name"] == except["name"] && p["in"] == except["in"]) {
				continue
			}
			if v := validRaw[p["name"].(string)+"|"+p["in"].(string)]; v != nil {
				set(&r, p, v...)
			} else if p["in"] == "path" {
				set(&r, p, "x")
			}
		}
		return r
	}
	for _, p := range op.Params {
		if p["in"] == "body" {
			for _, b := range bodyCandidates(p, op.Defs) {
				r := mkBackground(p)
				if b != nil {
					r.HasBody = true
					r.Body = *b
					r.ContentType = "application/json"
				}
				out = append(out, r)
			}
			continue
		}
		for _, c := range candRaw[p["name"].(string)+"|"+p["in"].(string)] {
			if c == nil && p["in"] == "path" {
				continue
			}
			r := mkBackground(p)
			if c != nil {
				set(&r, p, c...)
			}
			out = append(out, r)
		}
	}
	if len(out) == 0 {
		out = append(out, base)
	}
	return out
}

// paramRawCandidates: nil = absent; otherwise the list of values sent for the key.
func paramRawCandidates(p J) [][]string {
	out := [][]string{nil}
	isArr := p["type"] == "array"
	if !isArr {
		for _, v := range leafCandidates(p) {
			out = append(out, []string{rawOf(v)})
		}
		out = append(out, []string{""}, []string{"2020-13-40"}, []string{"aa", "aa"}, []string{"1", "2"}, []string{"TRUE"}, []string{"1e2"}, []string{" 1"}, []string{"0x10"}, []string{"9999999999"}, []string{"a b"}, []string{"é"})
		return dedupRaw(out)
	}
	items := p["items"].(J)
	cf, _ := p["collectionFormat"].(string)
	sep := map[string]string{"": ",", "csv": ",", "ssv": " ", "tsv": "\t", "pipes": "|", "multi": ","}[cf]
	nested := items["type"] == "array"
	leaf := items
	if nested {
		leaf = items["items"].(J)
	}
	lc := leafCandidates(leaf)
	var good, good2, bad string
	gotGood := false
	for _, v := range lc {
		ok := refValid(leaf, J{}, v)
		s := rawOf(v)
		if strings.ContainsAny(s, ",| \t") || s == "" {
			continue
		}
		switch {
		case ok && !gotGood:
			good, gotGood = s, true
		case ok && good2 == "" && s != good:
			good2 = s
		case !ok && bad == "":
			bad = s
		}
	}
	if !gotGood {
		good = "x"
	}
	if good2 == "" {
		good2 = good
	}
	if bad == "" {
		bad = "zz"
	}
	join := func(el ...string) string { return strings.Join(el, sep) }
	var lists [][]string // element lists
	lists = append(lists, []string{}, []string{good}, []string{good, good2}, []string{good, good}, []string{good, good2, good}, []string{bad}, []string{good, bad}, []string{good, "", good2})
	for _, v := range lc {
		s := rawOf(v)
		if s != "" && !strings.ContainsAny(s, ",| \t") {
			lists = append(lists, []string{s})
		}
	}
	for _, l := range lists {
		if nested {
			// outer pipes, inner csv: each element list becomes one inner array; also two inner arrays
			inner := strings.Join(l, ",")
			out = append(out, []string{inner}, []string{inner + "|" + good})
			if len(l) == 0 {
				// an inner array made of separators only
				out = append(out, []string{good + "|,"}, []string{","})
			}
			continue
		}
		if cf == "multi" {
			if len(l) == 0 {
				out = append(out, []string{""})
			} else {
				out = append(out, l)
			}
			continue
		}
		out = append(out, []string{join(l...)})
	}
	if !nested && cf != "multi" {
		out = append(out, []string{good, good2}) // repeated key for a non-multi array
		// a value using another separator: must be read as ONE element
		other := "|"
		if sep == "|" {
			other = ","
		}
		out = append(out, []string{good + other + good2})
	}
	return dedupRaw(out)
}

func dedupRaw(in [][]string) [][]string {
	seen := map[string]bool{}
	var out [][]string
	for _, v := range in {
		k := "nil"
		if v != nil {
			k = strings.Join(v, "\x00") + fmt.Sprint(len(v))
		}
		if !seen[k] {
			seen[k] = true
			out = append(out, v)
		}
	}
	return out
}

func bodyCandidates(p J, defs J) []*string {
	schema := p["schema"].(J)
	root := J{"definitions": defs}
	str := func(s string) *string { return &s }
	out := []*string{nil, str("{"), str("")}
	for _, v := range candidateValues(schema, root, 0) {
		if v == nil {
			continue
		}
		out = append(out, str(string(mustJSON(v))))
	}
	return out
}

func httpFromRef(op OpCase, r refbind.Request) HTTPReq {
	path := "/" + op.ID + op.Path
	for k, v := range r.Path {
		path = strings.ReplaceAll(path, "{"+k+"}", url.PathEscape(v))
	}
	u := path
	if len(r.Query) > 0 {
		u += "?" + r.Query.Encode()
	}
	h := HTTPReq{Method: strings.ToUpper(op.Method), URL: u, Header: map[string][]string{}}
	for k, v := range r.Header {
		h.Header[k] = v
	}
	if r.Form != nil {
		h.Header["Content-Type"] = []string{"application/x-www-form-urlencoded"}
		h.Body = r.Form.Encode()
		h.HasBody = true
	} else if r.HasBody {
		h.Header["Content-Type"] = []string{r.ContentType}
		h.Body = r.Body
		h.HasBody = true
	}
	return h
}

// packOps builds one document per group of operations.
func packOps(ops []OpCase, per int) []J {
	var docs []J
	for lo := 0; lo < len(ops); lo += per {
		hi := lo + per
		if hi > len(ops) {
			hi = len(ops)
		}
		doc := J{"swagger": "2.0", "info": J{"title": "verif", "version": "1"}, "consumes": A{"application/json"}, "produces": A{"application/json"}, "paths": J{}}
		for _, op := range ops[lo:hi] {
			o := J{"operationId": op.ID, "responses": J{"200": J{"description": "ok"}}}
			ps := A{}
			for _, p := range op.Params {
				ps = append(ps, cloneJ(p))
			}
			o["parameters"] = ps
			if len(op.Cons) > 0 {
				cs := A{}
				for _, c := range op.Cons {
					cs = append(cs, c)
				}
				o["consumes"] = cs
			}
			at(doc, "paths", "/"+op.ID+op.Path)[op.Method] = o
			for k, v := range op.Defs {
				at(doc, "definitions")[k] = clone(v)
			}
		}
		docs = append(docs, doc)
	}
	return docs
}

type c03Case struct {
	Op  OpCase          `json:"op"`
	Req refbind.Request `json:"request"`
}

func canonValue(v interface{}) interface{} {
	// nil == absent == empty list
	switch t := v.(type) {
	case nil:
		return nil
	case []interface{}:
		if len(t) == 0 {
			return nil
		}
		o := make([]interface{}, len(t))
		for i, x := range t {
			o[i] = canonValue(x)
		}
		return o
	case string:
		if tm, err := time.Parse(time.RFC3339Nano, t); err == nil && len(t) > 10 {
			return tm.UTC().Format(time.RFC3339Nano)
		}
		return t
	case int64:
		return float64(t)
	case uint64:
		return float64(t)
	case int:
		return float64(t)
	}
	return v
}

func c03Evaluate(r *evid.Run, op OpCase, rr refbind.Request, res HTTPRes, defs J) {
	var params []spec.Parameter
	for _, p := range op.Params {
		var sp spec.Parameter
		must(json.Unmarshal(mustJSON(p), &sp))
		params = append(params, sp)
	}
	root := normalizeJSON(J{"definitions": defs})
	exp := refbind.Bind(params, rr, refbind.Options{Root: root, Consumes: append([]string{}, op.Cons...), BodyOK: func(schema *spec.Schema, _ interface{}, data interface{}) bool {
		var sj J
		_ = json.Unmarshal(mustJSON(schema), &sj)
		d := normalizeJSON(data)
		if refValid(sj, J{"definitions": defs}, d) {
			return true
		}
		return false
	}})
	cs := c03Case{Op: op, Req: rr}
	key := op.ID + "|" + string(mustJSON(rr))
	sample := map[string]interface{}{"op": op.Desc, "request": rr, "expected": exp.Verdict.String()}
	outcome := exp.Verdict.String()
	viol := func(kind, what string) {
		outcome = "VIOLATION:" + kind
		r.Violate(evid.Violation{Signature: kind + " | " + op.Class + " | " + reqClass(op, rr), What: fmt.Sprintf("%s: operation {%s}, request %s: %s", kind, op.Desc, mustJSON(rr), what), Case: cs,
			Observed: map[string]interface{}{"status": res.Status, "reached": res.Reached, "params": res.Params, "body": trunc(res.Body, 300)}, Expected: map[string]interface{}{"verdict": exp.Verdict.String(), "values": exp.Values, "why": exp.Why}})
	}
	switch {
	case res.Panic != "":
		viol("panic", firstLine(res.Panic))
	case res.Status >= 500 && exp.Verdict != refbind.Reach:
		viol("5xx", fmt.Sprintf("server answered %d", res.Status))
	case exp.Verdict == refbind.DontCare:
		// weak oracle only
	case exp.Verdict == refbind.Reject:
		// body tolerance: the C02 tolerances (undeclared keys ignored, zero value as absent) apply to bodies
		if res.Reached != "" || res.Status < 400 || res.Status >= 500 {
			if bodyTolerated(op, rr, defs) {
				outcome = "reject-tolerated(body C02 tolerance)"
			} else {
				viol("accepted-invalid", fmt.Sprintf("the spec rejects this request (%s) but the handler ran / status=%d", exp.Why, res.Status))
			}
		}
	case exp.Verdict == refbind.Reach:
		if res.Reached == "" {
			viol("rejected-valid", fmt.Sprintf("the spec accepts this request but the server answered %d without running the handler: %s", res.Status, trunc(res.Body, 200)))
			break
		}
		// compare values
		for name, want := range exp.Values {
			if _, any := want.(refbind.AnyValue); any {
				continue
			}
			pname, pin := name, ""
			if i := strings.Index(name, ":"); i > 0 {
				pin, pname = name[:i], name[i+1:]
			}
			var got json.RawMessage
			found := false
			for f, v := range res.Params {
				if goFieldKey(f) == goFieldKey(pname) || (pin != "" && goFieldKey(f) == goFieldKey(pin+pname)) {
					got, found = v, true
				}
			}
			if !found {
				viol("param-missing", "handler params have no field for "+name)
				break
			}
			var gv interface{}
			_ = json.Unmarshal(got, &gv)
			w := canonValue(normalizeJSON(canonValue(want)))
			g := canonValue(gv)
			if isBodyParam(op, pname) {
				// body values: compare after the C05 normaliser (zero-valued optional members may be dropped)
				sch := bodySchema(op, pname)
				rootJ := J{"definitions": defs}
				w = nullArraysAbsent(rewriteDoc(sch, rootJ, w, rewriteOpts{dropUndeclared: true, dropZeroAll: true, nullAsEmpty: true}))
				g = nullArraysAbsent(rewriteDoc(sch, rootJ, g, rewriteOpts{dropUndeclared: true, dropZeroAll: true, nullAsEmpty: true}))
				if isZeroJSON(w) && isZeroJSON(g) {
					continue
				}
			}
			if w == nil && isZeroGoValue(g) {
				// an absent optional parameter without default: a non-pointer Go field can only hold its zero value
				continue
			}
			if !jsonEqualNum(numberify(w), numberify(g)) {
				viol("wrong-value", fmt.Sprintf("parameter %s: handler got %s, the request carries %s", name, string(got), mustJSON(want)))
				break
			}
		}
	}
	r.CaseKeyed(key, sample, exp.Verdict != refbind.DontCare, outcome)
}

func isZeroGoValue(v interface{}) bool {
	if isZeroJSON(v) {
		return true
	}
	if s, ok := v.(string); ok {
		return strings.HasPrefix(s, "0001-01-01")
	}
	return false
}

func numberify(v interface{}) interface{} {
	var x interface{}
	dec := json.NewDecoder(strings.NewReader(string(mustJSON(v))))
	dec.UseNumber()
	_ = dec.Decode(&x)
	return x
}

func isBodyParam(op OpCase, name string) bool {
	for _, p := range op.Params {
		if p["name"] == name && p["in"] == "body" {
			return true
		}
	}
	return false
}

func bodySchema(op OpCase, name string) J {
	for _, p := range op.Params {
		if p["name"] == name && p["in"] == "body" {
			return p["schema"].(J)
		}
	}
	return J{}
}

// bodyTolerated: the body is invalid for the schema only by the documented model tolerances.
func bodyTolerated(op OpCase, rr refbind.Request, defs J) bool {
	if !rr.HasBody {
		return false
	}
	for _, p := range op.Params {
		if p["in"] != "body" {
			continue
		}
		var data interface{}
		if err := json.Unmarshal([]byte(rr.Body), &data); err != nil {
			return false
		}
		sch := p["schema"].(J)
		root := J{"definitions": defs}
		for _, o := range []rewriteOpts{{dropUndeclared: true}, {dropZero: true}, {dropUndeclared: true, dropZero: true}} {
			d := rewriteDoc(sch, root, data, o)
			if !jsonEqual(d, data) && refValid(sch, root, d) {
				return true
			}
		}
	}
	return false
}

// reqClass gives a coarse class of the request for signatures.
func reqClass(op OpCase, rr refbind.Request) string {
	var parts []string
	for _, p := range op.Params {
		name := p["name"].(string)
		var vals []string
		present := false
		switch p["in"] {
		case "query":
			vals, present = rr.Query[name]
		case "formData":
			vals, present = rr.Form[name]
		case "header":
			vals = rr.Header[http.CanonicalHeaderKey(name)]
			present = len(vals) > 0
		case "path":
			v, ok := rr.Path[name]
			vals, present = []string{v}, ok
		case "body":
			switch {
			case !rr.HasBody:
				parts = append(parts, "body:absent")
			default:
				var d interface{}
				if json.Unmarshal([]byte(rr.Body), &d) != nil {
					parts = append(parts, "body:malformed")
				} else {
					parts = append(parts, "body:"+instanceClass(p["schema"].(J), J{"definitions": op.Defs}, d))
				}
			}
			continue
		}
		switch {
		case !present:
			parts = append(parts, "absent")
		case len(vals) > 1:
			parts = append(parts, fmt.Sprintf("repeated(%d)", len(vals)))
		case vals[0] == "":
			parts = append(parts, "empty")
		default:
			n := 1 + strings.Count(vals[0], ",") + strings.Count(vals[0], "|")
			parts = append(parts, fmt.Sprintf("value(n=%d)", n))
		}
	}
	return strings.Join(parts, ",")
}

func RunC03(tier, replay string) int {
	quietLogs()
	r := evid.New("C03", tier)
	bound := 3
	if tier == "thorough" {
		bound = 4
	}
	r.Rule = fmt.Sprintf("operations = one non-body parameter described by 8 dimensions (location 4, type/format 10, container 8 incl. every collectionFormat and nested arrays, required, allowEmptyValue, default, <=1 scalar validation from 7-9 per type, <=1 array validation from 5) with at most %d dimensions deviating from the base parameter, plus 16 body-parameter shapes (model, array/map of models, inline primitive/array/map/object; required and optional) and 3 two-parameter shapes; requests = per operation: absent, empty, malformed, every boundary candidate, repeated key, element lists of length 0-3 with invalid/empty/duplicate elements, foreign separators, bodies absent/malformed/every one-deviation candidate. Every request is served by the COMPILED generated server (httptest) and compared with the reference binder. distinct = (operation, request); non-trivial = reference verdict is reach or reject (not don't-care)", bound)
	r.Assume = []string{"reference semantics: mc/refbind (DESIGN.md appendix A) with explicit don't-care region (empty optional values without allowEmptyValue, non-true/false booleans, empty list elements, repeated scalar keys, lenient date-time spellings)", "body validity: go-openapi/validate with the C02 tolerances", "go-openapi/runtime middleware (routing, content negotiation) is trusted"}
	s := NewScratch("C03")
	defer s.Close()

	var ops []OpCase
	if replay != "" {
		r.Replay = true
		var rep struct {
			Case c03Case `json:"case"`
		}
		if err := readJSONFile(replay, &rep); err != nil {
			fmt.Fprintln(os.Stderr, err)
			return 2
		}
		op := rep.Case.Op
		docs := packOps([]OpCase{op}, 1)
		cases := GenServers(s, docs)
		BuildServers(s, cases)
		if cases[0].Bin == "" {
			fmt.Fprintln(os.Stderr, "HARNESS: cannot build:", cases[0].GenErr, cases[0].BuildErr)
			return 2
		}
		res, err := cases[0].Exec(s, []HTTPReq{httpFromRef(op, rep.Case.Req)})
		if err != nil {
			fmt.Fprintln(os.Stderr, "HARNESS:", err)
			return 2
		}
		fmt.Printf("status=%d reached=%q params=%v body=%s\n", res[0].Status, res[0].Reached, res[0].Params, trunc(res[0].Body, 300))
		c03Evaluate(r, op, rep.Case.Req, res[0], op.Defs)
		return r.Finish()
	}

	gen, st := xplore.Collect(xplore.Options{MaxDeviations: bound}, genParamOp)
	ops = append(ops, gen...)
	ops = append(ops, c03SpecialOps()...)
	for i := range ops {
		ops[i].ID = fmt.Sprintf("o%04d", i)
	}
	r.Extra["operations"] = len(ops)
	r.Extra["choice_points"] = st.Points
	r.Extra["skipped_invalid_combinations"] = st.Skipped
	r.Extra["bound_completed"] = fmt.Sprintf("<=%d deviating parameter dimensions; one request deviation at a time", bound)
	per := 30
	docs := packOps(ops, per)
	t0 := time.Now()
	cases := GenServers(s, docs)
	r.Extra["generate_seconds"] = time.Since(t0).Seconds()
	t1 := time.Now()
	BuildServers(s, cases)
	r.Extra["build_seconds"] = time.Since(t1).Seconds()
	// cases that fail to generate or build: split into single-operation cases to isolate the culprit
	var retryOps []OpCase
	for i, c := range cases {
		if c.Bin == "" {
			lo, hi := i*per, (i+1)*per
			if hi > len(ops) {
				hi = len(ops)
			}
			retryOps = append(retryOps, ops[lo:hi]...)
		}
	}
	opCase := map[string]*ServerCase{}
	for i, c := range cases {
		if c.Bin == "" {
			continue
		}
		lo, hi := i*per, (i+1)*per
		if hi > len(ops) {
			hi = len(ops)
		}
		for _, op := range ops[lo:hi] {
			opCase[op.ID] = c
		}
	}
	if len(retryOps) > 0 {
		s2 := NewScratch("C03r")
		defer s2.Close()
		docs2 := packOps(retryOps, 1)
		cases2 := GenServers(s2, docs2)
		BuildServers(s2, cases2)
		for i, c := range cases2 {
			if c.Bin == "" {
				r.Count("operations_dropped(generation or compile failure; reported by C01)", 1)
				r.Note("dropped {%s}: %s %s", retryOps[i].Desc, c.GenErr, firstLine(c.BuildErr))
				continue
			}
			opCase[retryOps[i].ID] = c
		}
		// requests against retry cases run in s2
		runC03Requests(r, s2, retryOps, opCase, cases2)
	}
	var mainOps []OpCase
	inRetry := map[string]bool{}
	for _, op := range retryOps {
		inRetry[op.ID] = true
	}
	for _, op := range ops {
		if !inRetry[op.ID] {
			mainOps = append(mainOps, op)
		}
	}
	runC03Requests(r, s, mainOps, opCase, cases)
	return r.Finish()
}

func runC03Requests(r *evid.Run, s *Scratch, ops []OpCase, opCase map[string]*ServerCase, cases []*ServerCase) {
	type item struct {
		op OpCase
		rr refbind.Request
	}
	byCase := map[*ServerCase][]item{}
	for _, op := range ops {
		c := opCase[op.ID]
		if c == nil {
			continue
		}
		for _, rr := range c03Requests(op) {
			byCase[c] = append(byCase[c], item{op, rr})
		}
	}
	var list []*ServerCase
	for c := range byCase {
		list = append(list, c)
	}
	sort.Slice(list, func(i, j int) bool { return list[i].Dir < list[j].Dir })
	parallel(len(list), runtime.NumCPU(), func(_, i int) {
		c := list[i]
		items := byCase[c]
		reqs := make([]HTTPReq, len(items))
		for j, it := range items {
			reqs[j] = httpFromRef(it.op, it.rr)
		}
		res, err := c.Exec(s, reqs)
		if err != nil {
			r.HarnessError("%v", err)
			return
		}
		for j, it := range items {
			c03Evaluate(r, it.op, it.rr, res[j], it.op.Defs)
		}
	})
}
