package props

import (
	"fmt"
	"os"
	"path/filepath"
	"regexp"
	"runtime"
	"sort"
	"strings"

	"verif/mc/evid"
)

// C08 — no operation or definition is silently dropped or merged.

type c08Case struct {
	Name  string   `json:"name"`
	Class string   `json:"class"`
	Doc   J        `json:"doc"`
	Args  []string `json:"args,omitempty"`
}

func c08Op(id string) J {
	o := J{"responses": J{"200": J{"description": "ok"}}}
	if id != "" {
		o["operationId"] = id
	}
	return o
}

func c08Base() J {
	return J{"swagger": "2.0", "info": J{"title": "verif", "version": "1"}, "consumes": A{"application/json"}, "produces": A{"application/json"}, "paths": J{}, "definitions": J{}}
}

func objDef(prop string) J {
	return J{"type": "object", "properties": J{prop: J{"type": "string"}}}
}

func c08Cases(tier string) []c08Case {
	var out []c08Case
	add := func(class, name string, doc J, args ...string) {
		out = append(out, c08Case{Name: name, Class: class, Doc: doc, Args: args})
	}
	// ---- definitions whose names collide after mangling
	defPairs := [][]string{{"a-b", "a_b"}, {"a b", "aB"}, {"id", "ID"}, {"http_url", "httpUrl"}, {"x", "X"}, {"a.b", "a_b"}, {"a-b", "a_b", "a b"}, {"Foo", "foo"}, {"user", "User"}}
	for _, names := range defPairs {
		if len(names) > 2 && tier != "thorough" {
			continue
		}
		d := c08Base()
		for i, n := range names {
			at(d, "definitions")[n] = objDef(fmt.Sprintf("p%d", i))
			at(d, "paths", fmt.Sprintf("/d%d", i))["get"] = J{"operationId": fmt.Sprintf("getD%d", i), "responses": J{"200": J{"description": "ok", "schema": J{"$ref": "#/definitions/" + strings.ReplaceAll(n, " ", "%20")}}}}
		}
		add("definition-names", "defs "+strings.Join(names, " / "), d)
	}
	// synthesised names
	{
		d := c08Base()
		at(d, "definitions")["Foo"] = J{"type": "array", "items": J{"type": "object", "properties": J{"i": J{"type": "string"}}}}
		at(d, "definitions")["FooItems0"] = objDef("mine")
		at(d, "paths", "/a")["get"] = J{"operationId": "getA", "responses": J{"200": J{"description": "ok", "schema": J{"$ref": "#/definitions/Foo"}}}}
		at(d, "paths", "/b")["get"] = J{"operationId": "getB", "responses": J{"200": J{"description": "ok", "schema": J{"$ref": "#/definitions/FooItems0"}}}}
		add("definition-synth", "defs Foo(items object) / FooItems0", d)
		d2 := c08Base()
		at(d2, "definitions")["Foo"] = J{"allOf": A{J{"type": "object", "properties": J{"a": J{"type": "string"}}}, J{"type": "object", "properties": J{"b": J{"type": "string"}}}}}
		at(d2, "definitions")["FooAllOf1"] = objDef("mine")
		at(d2, "paths", "/a")["get"] = J{"operationId": "getA", "responses": J{"200": J{"description": "ok", "schema": J{"$ref": "#/definitions/Foo"}}}}
		at(d2, "paths", "/b")["get"] = J{"operationId": "getB", "responses": J{"200": J{"description": "ok", "schema": J{"$ref": "#/definitions/FooAllOf1"}}}}
		add("definition-synth", "defs Foo(allOf) / FooAllOf1", d2)
		d3 := c08Base()
		at(d3, "definitions")["GetAOKBody"] = objDef("mine")
		at(d3, "paths", "/a")["get"] = J{"operationId": "getA", "responses": J{"200": J{"description": "ok", "schema": J{"type": "object", "properties": J{"x": J{"type": "string"}}}}}}
		at(d3, "paths", "/b")["get"] = J{"operationId": "getB", "responses": J{"200": J{"description": "ok", "schema": J{"$ref": "#/definitions/GetAOKBody"}}}}
		add("definition-synth", "defs GetAOKBody / inline response body of getA", d3)
	}
	// file-name level collisions
	for _, names := range [][]string{{"a_test", "a"}, {"a-test", "b"}, {"linux", "b"}, {"a_linux", "b"}, {"a_windows", "b"}, {"doc", "b"}, {"b_amd64", "b"}, {"a_js", "b"}} {
		d := c08Base()
		for i, n := range names {
			at(d, "definitions")[n] = objDef(fmt.Sprintf("p%d", i))
			at(d, "paths", fmt.Sprintf("/d%d", i))["get"] = J{"operationId": fmt.Sprintf("getD%d", i), "responses": J{"200": J{"description": "ok", "schema": J{"$ref": "#/definitions/" + n}}}}
		}
		add("definition-filenames", "defs "+strings.Join(names, " / "), d)
	}
	// operation ids on file-name suffixes
	for _, id := range []string{"list_test", "get_linux", "get_windows", "doc", "main"} {
		d := c08Base()
		at(d, "paths", "/a")["get"] = c08Op(id)
		at(d, "paths", "/b")["get"] = c08Op("plain")
		add("operation-filenames", "operationId "+id, d)
	}
	// ---- operations without operationId on paths that humanise alike
	for _, paths := range [][]string{{"/a-b", "/a_b"}, {"/a.b", "/a_b"}, {"/A", "/a"}, {"/a/", "/a"}, {"/a/b", "/a_b"}, {"/a/{b}", "/a/b"}, {"/a-b", "/a_b", "/a.b"}, {"/", "/a"}, {"/a/{id}", "/a/{id}/"}} {
		if len(paths) > 2 && tier != "thorough" {
			continue
		}
		d := c08Base()
		for _, p := range paths {
			o := c08Op("")
			if strings.Contains(p, "{") {
				var ps A
				for _, m := range regexp.MustCompile(`\{(\w+)\}`).FindAllStringSubmatch(p, -1) {
					ps = append(ps, J{"in": "path", "name": m[1], "required": true, "type": "string"})
				}
				o["parameters"] = ps
			}
			at(d, "paths", p)["get"] = o
		}
		add("paths-without-ids", "paths "+strings.Join(paths, " , "), d)
	}
	// operationIds equal after mangling
	for _, ids := range [][]string{{"get-a", "get_a"}, {"getA", "GetA"}, {"get a", "getA"}, {"get.a", "get_a"}, {"getA", "get_a", "get-a"}, {"list", "List"}} {
		if len(ids) > 2 && tier != "thorough" {
			continue
		}
		d := c08Base()
		for i, id := range ids {
			at(d, "paths", fmt.Sprintf("/p%d", i))["get"] = c08Op(id)
		}
		add("operation-ids", "operationIds "+strings.Join(ids, " / "), d)
	}
	// operationIds equal after mangling that live in DIFFERENT tag packages (legitimate: one Go name per package),
	// with inline payloads, whose synthesised type names (<Op>OKBody, <Op>Body) are equal as well
	for _, ids := range [][]string{{"getPet", "get-pet"}, {"list", "List"}, {"get_a", "getA"}} {
		for _, tagging := range [][]string{{"cats", "dogs"}, {"cats", ""}} {
			for _, nested := range []bool{false, true} {
				d := c08Base()
				for i, id := range ids {
					o := c08Op(id)
					if tagging[i] != "" {
						o["tags"] = A{tagging[i]}
					}
					o["parameters"] = A{J{"in": "body", "name": "body", "schema": J{"type": "object", "properties": J{fmt.Sprintf("in%d", i): J{"type": "string"}}}}}
					out := J{fmt.Sprintf("out%d", i): J{"type": "string"}}
					if nested {
						out["nested"] = J{"type": "object", "properties": J{"deep": J{"type": "integer"}}}
					}
					o["responses"] = J{"200": J{"description": "ok", "schema": J{"type": "object", "properties": out}}}
					at(d, "paths", fmt.Sprintf("/q%d", i))["post"] = o
				}
				kind := "flat inline payloads"
				if nested {
					kind = "nested inline payloads"
				}
				add("operation-ids-across-packages", fmt.Sprintf("operationIds %s in tag packages %q / %q with %s", strings.Join(ids, " / "), tagging[0], tagging[1], kind), d)
			}
		}
	}
	// same operationId twice (invalid unless validation is skipped)
	{
		d := c08Base()
		at(d, "paths", "/p0")["get"] = c08Op("same")
		at(d, "paths", "/p1")["get"] = c08Op("same")
		add("operation-ids", "operationId same on two paths", d)
		add("operation-ids", "operationId same on two paths --skip-validation", cloneJ(d), "--skip-validation")
		d2 := c08Base()
		at(d2, "paths", "/p0")["get"] = c08Op("same")
		at(d2, "paths", "/p0")["post"] = c08Op("same")
		add("operation-ids", "operationId same on two methods --skip-validation", d2, "--skip-validation")
	}
	// tags that become the same package
	for _, tags := range [][]string{{"a-b", "a_b"}, {"v1", "V1"}, {"operations", "x"}, {"a b", "ab"}, {"restapi", "models"}, {"api", "apiops"}, {"models", "modelsops"}, {"Models", "x"}, {"operations", "operationsops"}} {
		d := c08Base()
		for i, t := range tags {
			o := c08Op(fmt.Sprintf("op%d", i))
			o["tags"] = A{t}
			at(d, "paths", fmt.Sprintf("/t%d", i))["get"] = o
			// the same operation id under two tags
			o2 := c08Op("list")
			if i > 0 {
				o2 = c08Op("List")
			}
			o2["tags"] = A{t}
			at(d, "paths", fmt.Sprintf("/l%d", i))["get"] = o2
		}
		add("tags", "tags "+strings.Join(tags, " / "), d)
		if tier == "thorough" {
			add("tags", "tags "+strings.Join(tags, " / ")+" --skip-tag-packages", cloneJ(d), "--skip-tag-packages")
		}
	}
	// ---- ordinary shapes: every method on shared paths, root path, path items through $ref, base paths
	{
		d := c08Base()
		for _, m := range []string{"get", "put", "post", "delete", "patch", "head", "options"} {
			at(d, "paths", "/x")[m] = c08Op("")
			at(d, "paths", "/x/{id}")[m] = J{"parameters": A{J{"in": "path", "name": "id", "required": true, "type": "string"}}, "responses": J{"200": J{"description": "ok"}}}
		}
		at(d, "paths", "/x/{id}/y")["get"] = J{"parameters": A{J{"in": "path", "name": "id", "required": true, "type": "string"}}, "responses": J{"200": J{"description": "ok"}}}
		add("ordinary", "all methods on /x, /x/{id}, /x/{id}/y", d)
		d2 := c08Base()
		at(d2, "paths", "/")["get"] = c08Op("root")
		at(d2, "paths", "/a")["get"] = c08Op("getA")
		add("ordinary", "root path /", d2)
		d3 := cloneJ(d2)
		d3["basePath"] = "/v1"
		add("ordinary", "root path / under basePath /v1", d3)
		d4 := c08Base()
		d4["basePath"] = "/"
		at(d4, "paths", "/a")["get"] = c08Op("getA")
		at(d4, "paths", "/a/")["post"] = c08Op("postA")
		add("ordinary", "basePath / and trailing slash", d4)
		d5 := c08Base()
		at(d5, "paths", "/{a}/{b}")["get"] = J{"operationId": "two", "parameters": A{J{"in": "path", "name": "a", "required": true, "type": "string"}, J{"in": "path", "name": "b", "required": true, "type": "string"}}, "responses": J{"200": J{"description": "ok"}}}
		at(d5, "paths", "/{a}")["get"] = J{"operationId": "one", "parameters": A{J{"in": "path", "name": "a", "required": true, "type": "string"}}, "responses": J{"200": J{"description": "ok"}}}
		at(d5, "paths", "/fixed")["get"] = c08Op("fixed")
		add("ordinary", "parameterised root segments and a fixed sibling", d5)
		d7 := c08Base()
		d7["x-path-items"] = J{"shared": J{"get": c08Op("getShared"), "post": c08Op("postShared")}}
		at(d7, "paths")["/r"] = J{"$ref": "#/x-path-items/shared"}
		at(d7, "paths", "/plain")["get"] = c08Op("getPlain")
		add("ordinary", "path item declared through $ref", d7)
		d6 := c08Base()
		for i := 0; i < 12; i++ {
			o := c08Op(fmt.Sprintf("op%d", i))
			o["tags"] = A{fmt.Sprintf("tag%d", i%3), "second"}
			at(d6, "paths", fmt.Sprintf("/m%d", i))["get"] = o
		}
		add("ordinary", "12 operations, 3 tags, multi-tagged", d6)
	}
	return out
}

var rxRoute = regexp.MustCompile(`swagger:route\s+(\S+)\s+(\S+)`)
var rxTypeDecl = regexp.MustCompile(`^type\s+(\w+)\s+struct`)

// handlerRoutes maps handler type name -> "METHOD path" from the swagger:route comments of the generated operations.
func handlerRoutes(root string) (map[string][]string, error) {
	out := map[string][]string{}
	err := filepath.Walk(root, func(p string, info os.FileInfo, err error) error {
		if err != nil || info.IsDir() || !strings.HasSuffix(p, ".go") {
			return nil
		}
		b, err := os.ReadFile(p)
		if err != nil {
			return nil
		}
		pending := ""
		for _, l := range strings.Split(string(b), "\n") {
			if m := rxRoute.FindStringSubmatch(l); m != nil {
				pending = strings.ToUpper(m[1]) + " " + m[2]
				continue
			}
			if m := rxTypeDecl.FindStringSubmatch(l); m != nil && pending != "" {
				out[m[1]] = append(out[m[1]], pending)
				pending = ""
			}
		}
		return nil
	})
	return out, err
}

type specOp struct{ Method, Path string }

func specOps(doc J) []specOp {
	var out []specOp
	paths, _ := doc["paths"].(J)
	for _, p := range sortedKeys(paths) {
		pi, _ := paths[p].(J)
		if ref, ok := pi["$ref"].(string); ok && strings.HasPrefix(ref, "#/") {
			var cur interface{} = doc
			for _, seg := range strings.Split(strings.TrimPrefix(ref, "#/"), "/") {
				if m, ok := cur.(J); ok {
					cur = m[seg]
				}
			}
			if t, ok := cur.(J); ok {
				pi = t
			}
		}
		for _, m := range []string{"get", "put", "post", "delete", "patch", "head", "options"} {
			if _, ok := pi[m]; ok {
				out = append(out, specOp{strings.ToUpper(m), p})
			}
		}
	}
	return out
}

func RunC08(tier, replay string) int {
	quietLogs()
	r := evid.New("C08", tier)
	r.Rule = "specs with 2-3 entities whose names collide after mangling, in every name position (definition names incl. generator-synthesised and file-name-level collisions such as _test/_linux suffixes, paths without operationId that humanise alike, operationIds equal after mangling or duplicated, tags mapping to one package), plus ordinary shapes (every method on shared paths, root path, base paths, trailing slashes, parameterised siblings, multi-tagged operations); each generated by the real `swagger generate server`; if generation succeeds: every definition must own a generated type (`swagger:model <name>`), every operation a handler whose swagger:route comment names it; if it also builds: every (method, path) is requested on the COMPILED server and must reach the handler generated for that very operation; operations <-> handlers is a bijection. distinct = spec; non-trivial = generation succeeded and entities were checked"
	r.Assume = []string{"a generation error is an acceptable outcome (the property demands an error instead of a silent drop)", "a build failure without a missing entity is left to C01"}
	s := NewScratch("C08")
	defer s.Close()
	cases := c08Cases(tier)
	if replay != "" {
		r.Replay = true
		var rep struct {
			Case c08Case `json:"case"`
		}
		if err := readJSONFile(replay, &rep); err != nil {
			fmt.Fprintln(os.Stderr, err)
			return 2
		}
		cases = []c08Case{rep.Case}
	}
	specs := make([]ServerSpec, len(cases))
	for i, c := range cases {
		specs[i] = ServerSpec{Doc: c.Doc, Args: c.Args}
	}
	r.Extra["specs"] = len(cases)
	srv := GenServersSpec(s, specs)
	BuildServers(s, srv)
	parallel(len(cases), runtime.NumCPU(), func(_, i int) {
		c, sc := cases[i], srv[i]
		sample := map[string]interface{}{"case": c.Name, "class": c.Class}
		if sc.GenErr != "" {
			r.CaseKeyed(c.Name, sample, false, "generation-refused")
			return
		}
		outcome := "all-present"
		viol := func(kind, what string, obs interface{}) {
			outcome = "VIOLATION:" + kind
			// which of two colliding entities survives depends on map iteration order inside the
			// generator, so every symptom of a lost operation / definition shares one signature per case
			group := kind
			switch kind {
			case "definition-dropped", "definition-not-compiled":
				group = "definition-lost"
			case "operation-dropped", "operation-unreachable", "operations-merged", "wrong-handler":
				group = "operation-lost"
			case "client-method-dropped":
				group = "client-method-lost"
			case "client-definition-dropped":
				group = "client-definition-lost"
			}
			r.Violate(evid.Violation{Signature: group + " | " + c.Class + " | " + c.Name, What: fmt.Sprintf("[%s] %s", c.Name, what), Case: c, Observed: obs})
		}
		dir := filepath.Join(s.Dir, sc.Dir)
		// --- definitions
		types, err := ModelTypes(filepath.Join(dir, "models"))
		defs, _ := c.Doc["definitions"].(J)
		if err != nil && len(defs) > 0 {
			r.HarnessError("%s: cannot parse generated models: %v", c.Name, err)
		}
		var missingDefs []string
		for _, n := range sortedKeys(defs) {
			if _, ok := types[n]; !ok {
				missingDefs = append(missingDefs, n)
			}
		}
		// a type only counts if its file is part of the package build (not *_test.go, not build-constrained away)
		byFile, _ := modelTypesByFile(filepath.Join(dir, "models"))
		var excluded []string
		for file, names := range byFile {
			if fileExcludedFromBuild(file) {
				for n := range names {
					excluded = append(excluded, n+" (in "+file+")")
				}
			}
		}
		sort.Strings(excluded)
		if len(missingDefs) > 0 {
			viol("definition-dropped", fmt.Sprintf("generation succeeded but no generated type carries swagger:model for definition(s) %v", missingDefs), types)
		} else if len(excluded) > 0 {
			viol("definition-not-compiled", fmt.Sprintf("generation succeeded but the type of definition(s) %v is written to a file the Go tool excludes from the package (test file or GOOS/GOARCH suffix)", excluded), nil)
		}
		// --- operations (static)
		routes, _ := handlerRoutes(filepath.Join(dir, "restapi", "operations"))
		routeOwner := map[string][]string{}
		for t, rs := range routes {
			for _, rt := range rs {
				routeOwner[rt] = append(routeOwner[rt], t)
			}
		}
		ops := specOps(c.Doc)
		base := basePathOf(c.Doc)
		var missingOps []string
		for _, op := range ops {
			full := op.Method + " " + base + op.Path
			if len(routeOwner[full]) == 0 && len(routeOwner[op.Method+" "+op.Path]) == 0 {
				missingOps = append(missingOps, full)
			}
		}
		if len(missingOps) > 0 {
			viol("operation-dropped", fmt.Sprintf("generation succeeded but no generated handler declares swagger:route for %v (handlers: %v)", missingOps, routes), nil)
		}
		// --- client target: every operation must own a client method (a runtime.ClientOperation with its
		// method and path pattern), every definition a model type
		if cerr := c08ClientCheck(s, i, c, ops, sortedKeys(defs), func(kind, what string) { viol(kind, what, nil) }); cerr != "" {
			r.Count("client_generation_refused", 1)
		}
		// --- operations (dynamic)
		if sc.Bin == "" {
			if outcome == "all-present" {
				outcome = "build-failure(C01)"
				r.Count("build_failures_without_missing_entity(C01)", 1)
				r.Note("build failure [%s]: %s", c.Name, trunc(firstLine(strings.TrimPrefix(sc.BuildErr, "# ")), 200))
			}
			r.CaseKeyed(c.Name, sample, true, outcome)
			return
		}
		var reqs []HTTPReq
		for _, op := range ops {
			p := regexp.MustCompile(`\{\w+\}`).ReplaceAllString(op.Path, "1")
			reqs = append(reqs, HTTPReq{Method: op.Method, URL: base + p})
		}
		res, err := sc.Exec(s, reqs)
		if err != nil {
			if strings.Contains(err.Error(), "exit status 2") && strings.Contains(err.Error(), "middleware.NewRouter") {
				viol("server-panics-at-startup", "the generated server builds but panics while building its router, so no operation is reachable: "+trunc(err.Error(), 300), nil)
				r.CaseKeyed(c.Name, sample, true, outcome)
				return
			}
			r.HarnessError("%s: %v", c.Name, err)
			return
		}
		reachedBy := map[string][]string{}
		for j, op := range ops {
			full := op.Method + " " + op.Path
			if res[j].Reached == "" {
				viol("operation-unreachable", fmt.Sprintf("%s is answered with %d and no handler runs", full, res[j].Status), nil)
				continue
			}
			reachedBy[res[j].Reached] = append(reachedBy[res[j].Reached], full)
			// the handler field is <Pkg><Type>Handler: find the handler type that is a suffix of the field name
			field := strings.TrimSuffix(res[j].Reached, "Handler")
			okRoute := false
			best := ""
			for t, rs := range routes {
				if strings.HasSuffix(field, t) && len(t) > len(best) {
					best = t
					okRoute = false
					for _, rt := range rs {
						if rt == op.Method+" "+base+op.Path || rt == full {
							okRoute = true
						}
					}
				}
			}
			if best != "" && !okRoute {
				viol("wrong-handler", fmt.Sprintf("%s reaches handler field %s, generated for %v", full, res[j].Reached, routes[best]), nil)
			}
		}
		for f, l := range reachedBy {
			if len(l) > 1 {
				viol("operations-merged", fmt.Sprintf("operations %v all reach the single handler %s", l, f), nil)
			}
		}
		r.CaseKeyed(c.Name, sample, true, outcome)
	})
	return r.Finish()
}

func fileExcludedFromBuild(name string) bool {
	base := strings.TrimSuffix(name, ".go")
	if strings.HasSuffix(base, "_test") {
		return true
	}
	goos := []string{"aix", "android", "darwin", "dragonfly", "freebsd", "hurd", "illumos", "ios", "js", "nacl", "netbsd", "openbsd", "plan9", "solaris", "wasip1", "windows", "zos"}
	goarch := []string{"386", "arm", "arm64", "loong64", "mips", "mips64", "mips64le", "mipsle", "ppc64", "ppc64le", "riscv64", "s390x", "wasm"}
	parts := strings.Split(base, "_")
	if len(parts) < 2 {
		return false
	}
	last := parts[len(parts)-1]
	for _, o := range goos {
		if last == o {
			return true
		}
	}
	for _, a := range goarch {
		if last == a {
			return true
		}
	}
	return false
}


var rxClientOp = regexp.MustCompile(`Method:\s+"(\w+)",\s*\n\s*PathPattern:\s+"([^"]*)"`)

// c08ClientCheck generates the client of the case and checks statically that every operation has its
// own client method and every definition its model type. Returns the generation error, if any.
func c08ClientCheck(s *Scratch, idx int, c c08Case, ops []specOp, defNames []string, viol func(kind, what string)) string {
	dir := filepath.Join(s.Dir, fmt.Sprintf("cl%04d", idx))
	must(os.MkdirAll(dir, 0o755))
	defer os.RemoveAll(dir)
	sp := filepath.Join(dir, "swagger.json")
	must(os.WriteFile(sp, prettyJSON(c.Doc), 0o644))
	args := append([]string{"--name", "verifapp"}, c.Args...)
	if res := s.Generate("client", sp, dir, args...); res.Err != nil {
		return lastLines(res.Out, 3)
	}
	have := map[string]int{}
	_ = filepath.Walk(filepath.Join(dir, "client"), func(p string, info os.FileInfo, err error) error {
		if err != nil || info.IsDir() || !strings.HasSuffix(p, "_client.go") {
			return nil
		}
		b, _ := os.ReadFile(p)
		for _, m := range rxClientOp.FindAllStringSubmatch(string(b), -1) {
			have[strings.ToUpper(m[1])+" "+m[2]]++
		}
		return nil
	})
	var missing []string
	for _, op := range ops {
		if have[op.Method+" "+op.Path] == 0 {
			missing = append(missing, op.Method+" "+op.Path)
		}
	}
	if len(missing) > 0 {
		viol("client-method-dropped", fmt.Sprintf("generate client succeeded but no client method performs %v (client operations: %v)", missing, have))
	}
	if len(defNames) > 0 {
		types, err := ModelTypes(filepath.Join(dir, "models"))
		if err == nil {
			var md []string
			for _, n := range defNames {
				if _, ok := types[n]; !ok {
					md = append(md, n)
				}
			}
			if len(md) > 0 {
				viol("client-definition-dropped", fmt.Sprintf("generate client succeeded but no generated type carries swagger:model for definition(s) %v", md))
			}
		}
	}
	return ""
}
