package props

import (
	"bytes"
	"context"
	"fmt"
	"go/ast"
	"go/parser"
	"go/token"
	"os"
	"os/exec"
	"path/filepath"
	"regexp"
	"strings"
	"time"
)

// Scratch pipeline: pack -> generate (real swagger binary, one process per generation) -> go build
// -> run driver -> unpack.  Everything lives in a throw-away Go module outside /repo and /verif.

const scratchModule = "verif.scratch/m"

// RepoDir is the go-swagger tree under test.
func RepoDir() string {
	if r := os.Getenv("VERIF_REPO"); r != "" {
		return r
	}
	return "/repo"
}

// SwaggerBin is the swagger binary check.sh built from the current working tree.
func SwaggerBin() string {
	if b := os.Getenv("VERIF_SWAGGER_BIN"); b != "" {
		return b
	}
	return filepath.Join(os.Getenv("VERIF_ROOT"), ".bin", "swagger")
}

func goEnv() []string {
	env := os.Environ()
	env = append(env, "GOFLAGS=-mod=mod", "GOPROXY=off", "GOSUMDB=off", "GOTOOLCHAIN=local")
	return env
}

// Scratch is a scratch Go module.
type Scratch struct {
	Dir string
}

// NewScratch creates the module: same dependency versions as the repository, replace => repo.
func NewScratch(prop string) *Scratch {
	dir := ScratchRoot(prop)
	repo := RepoDir()
	gm, err := os.ReadFile(filepath.Join(repo, "go.mod"))
	if err != nil {
		panic(err)
	}
	var out bytes.Buffer
	out.WriteString("module " + scratchModule + "\n\ngo 1.21\n\n")
	// copy the require blocks verbatim so generated code compiles against the pinned versions
	inReq := false
	for _, l := range strings.Split(string(gm), "\n") {
		t := strings.TrimSpace(l)
		switch {
		case strings.HasPrefix(t, "require ("):
			inReq = true
			out.WriteString("require (\n")
		case inReq && t == ")":
			inReq = false
			out.WriteString(")\n")
		case inReq:
			out.WriteString(l + "\n")
		case strings.HasPrefix(t, "require "):
			out.WriteString(l + "\n")
		}
	}
	out.WriteString("\nrequire github.com/go-swagger/go-swagger v0.0.0\n\nreplace github.com/go-swagger/go-swagger => " + repo + "\n")
	must(os.WriteFile(filepath.Join(dir, "go.mod"), out.Bytes(), 0o644))
	gs, _ := os.ReadFile(filepath.Join(repo, "go.sum"))
	must(os.WriteFile(filepath.Join(dir, "go.sum"), gs, 0o644))
	return &Scratch{Dir: dir}
}

func must(err error) {
	if err != nil {
		panic(err)
	}
}

// Close removes the module.
func (s *Scratch) Close() { _ = os.RemoveAll(s.Dir) }

// CmdResult of a subprocess.
type CmdResult struct {
	Err      error
	Out      string
	TimedOut bool
	Dur      time.Duration
}

func runCmd(dir string, timeout time.Duration, stdin []byte, name string, args ...string) CmdResult {
	ctx, cancel := context.WithTimeout(context.Background(), timeout)
	defer cancel()
	cmd := exec.CommandContext(ctx, name, args...)
	cmd.Dir = dir
	cmd.Env = goEnv()
	if stdin != nil {
		cmd.Stdin = bytes.NewReader(stdin)
	}
	var buf bytes.Buffer
	cmd.Stdout = &buf
	cmd.Stderr = &buf
	t0 := time.Now()
	err := cmd.Run()
	return CmdResult{Err: err, Out: buf.String(), TimedOut: ctx.Err() == context.DeadlineExceeded, Dur: time.Since(t0)}
}

// runCmdSplit keeps stdout and stderr apart (drivers print results on stdout).
func runCmdSplit(dir string, timeout time.Duration, stdin []byte, name string, args ...string) (stdout []byte, stderr string, err error, timedOut bool) {
	ctx, cancel := context.WithTimeout(context.Background(), timeout)
	defer cancel()
	cmd := exec.CommandContext(ctx, name, args...)
	cmd.Dir = dir
	cmd.Env = goEnv()
	if stdin != nil {
		cmd.Stdin = bytes.NewReader(stdin)
	}
	var o, e bytes.Buffer
	cmd.Stdout = &o
	cmd.Stderr = &e
	err = cmd.Run()
	return o.Bytes(), e.String(), err, ctx.Err() == context.DeadlineExceeded
}

// Generate runs `swagger generate <kind> ...` in a fresh process with cwd = target.
func (s *Scratch) Generate(kind, specPath, target string, extra ...string) CmdResult {
	must(os.MkdirAll(target, 0o755))
	args := []string{"generate", kind, "-q", "-f", specPath, "-t", target}
	args = append(args, extra...)
	return runCmd(target, 10*time.Minute, nil, SwaggerBin(), args...)
}

// Build runs go build for the given package patterns (relative to the module root).
func (s *Scratch) Build(outBin string, pkgs ...string) CmdResult {
	args := []string{"build"}
	if outBin != "" {
		args = append(args, "-o", outBin)
	}
	args = append(args, pkgs...)
	return runCmd(s.Dir, 20*time.Minute, nil, "go", args...)
}

// Vet-less compile of every package below dir (no binary output).
func (s *Scratch) BuildAll(rel string) CmdResult {
	return runCmd(s.Dir, 20*time.Minute, nil, "go", "build", "./"+rel+"/...")
}

var rxModelComment = regexp.MustCompile(`swagger:model\s+(.+?)\s*$`)
var rxDiscriminatorComment = regexp.MustCompile(`swagger:discriminator\s+(\S+)(?:\s+\S+)?\s*$`)

// ModelTypes maps definition name -> Go type name by reading the `swagger:model <name>` comments of
// the generated package (so the harness never re-implements name mangling).
func ModelTypes(pkgDir string) (map[string]string, error) {
	fset := token.NewFileSet()
	pkgs, err := parser.ParseDir(fset, pkgDir, nil, parser.ParseComments)
	if err != nil {
		return nil, err
	}
	out := map[string]string{}
	for _, p := range pkgs {
		for _, f := range p.Files {
			for _, d := range f.Decls {
				gd, ok := d.(*ast.GenDecl)
				if !ok || gd.Tok != token.TYPE {
					continue
				}
				for _, sp := range gd.Specs {
					ts := sp.(*ast.TypeSpec)
					doc := gd.Doc
					if ts.Doc != nil {
						doc = ts.Doc
					}
					if doc == nil {
						continue
					}
					for _, c := range doc.List {
						if m := rxModelComment.FindStringSubmatch(c.Text); m != nil {
							out[m[1]] = ts.Name.Name
						}
						// a discriminated base type is an interface: "iface:<Type>"
						if m := rxDiscriminatorComment.FindStringSubmatch(c.Text); m != nil {
							if _, isIface := ts.Type.(*ast.InterfaceType); isIface {
								out[m[1]] = "iface:" + ts.Name.Name
							}
						}
					}
				}
			}
		}
	}
	return out, nil
}

// attributeBuildErrors maps compiler output lines to the case directory they belong to.
func attributeBuildErrors(out string) map[string][]string {
	res := map[string][]string{}
	for _, l := range strings.Split(out, "\n") {
		l = strings.TrimSpace(l)
		if l == "" || strings.HasPrefix(l, "#") {
			continue
		}
		// c0001/models/x.go:12:3: message
		i := strings.Index(l, "/")
		if i <= 0 {
			res["?"] = append(res["?"], l)
			continue
		}
		res[l[:i]] = append(res[l[:i]], l)
	}
	return res
}

func caseDir(i int) string { return fmt.Sprintf("c%04d", i) }

// runCmdEnv is runCmd with extra environment variables.
func runCmdEnv(dir string, timeout time.Duration, extraEnv []string, name string, args ...string) CmdResult {
	ctx, cancel := context.WithTimeout(context.Background(), timeout)
	defer cancel()
	cmd := exec.CommandContext(ctx, name, args...)
	cmd.Dir = dir
	cmd.Env = append(goEnv(), extraEnv...)
	var buf bytes.Buffer
	cmd.Stdout = &buf
	cmd.Stderr = &buf
	t0 := time.Now()
	err := cmd.Run()
	return CmdResult{Err: err, Out: buf.String(), TimedOut: ctx.Err() == context.DeadlineExceeded, Dur: time.Since(t0)}
}
