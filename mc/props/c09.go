package props

import (
	"bytes"
	"fmt"
	"go/ast"
	"go/parser"
	"go/printer"
	"go/token"
	"os"
	"path/filepath"
	"regexp"
	"runtime"
	"sort"
	"strings"
	"sync"
	"time"

	"verif/mc/evid"
)

// C09 — free text from the spec never becomes code.

type c09Pos struct {
	Name string
	Set  func(d J, s string)
}

func c09Carrier() J {
	d := J{"swagger": "2.0",
		"info": J{"title": "carrier", "version": "1.0", "description": "neutral", "termsOfService": "neutral", "contact": J{"name": "neutral", "url": "http://example.com", "email": "a@example.com"}, "license": J{"name": "neutral", "url": "http://example.com/l"}},
		"host": "example.com", "basePath": "/v1", "schemes": A{"http"},
		"consumes": A{"application/json"}, "produces": A{"application/json"},
		"externalDocs": J{"description": "neutral", "url": "http://example.com/docs"},
		"tags":         A{J{"name": "things", "description": "neutral", "externalDocs": J{"description": "neutral", "url": "http://example.com/t"}}},
		"securityDefinitions": J{
			"key":   J{"type": "apiKey", "in": "header", "name": "X-Key", "description": "neutral"},
			"oauth": J{"type": "oauth2", "flow": "password", "tokenUrl": "https://example.com/t", "description": "neutral", "scopes": J{"read": "neutral"}},
		},
		"security": A{J{"key": A{}}},
		"paths":    J{}, "definitions": J{},
	}
	at(d, "definitions")["Thing"] = J{"type": "object", "title": "neutral", "description": "neutral", "externalDocs": J{"description": "neutral", "url": "http://example.com/s"},
		"required": A{"name"}, "example": J{"name": "neutral"},
		"properties": J{
			"name":  J{"type": "string", "description": "neutral", "title": "neutral", "default": "neutral", "example": "neutral", "pattern": "^neutral$"},
			"kind":  J{"type": "string", "enum": A{"a", "b"}, "description": "neutral"},
			"count": J{"type": "integer", "description": "neutral", "default": 3},
			"sub":   J{"type": "object", "description": "neutral", "properties": J{"x": J{"type": "string", "description": "neutral"}}},
		}}
	at(d, "paths", "/things/{id}")["post"] = J{"operationId": "postThing", "tags": A{"things"}, "summary": "neutral", "description": "neutral",
		"externalDocs": J{"description": "neutral", "url": "http://example.com/o"},
		"security":     A{J{"oauth": A{"read"}}},
		"parameters": A{
			J{"in": "path", "name": "id", "required": true, "type": "string", "description": "neutral", "pattern": "^n+$"},
			J{"in": "query", "name": "q", "type": "string", "description": "neutral", "default": "neutral", "pattern": "^neutral$"},
			J{"in": "header", "name": "X-H", "type": "string", "description": "neutral", "default": "neutral"},
			J{"in": "body", "name": "body", "description": "neutral", "schema": J{"$ref": "#/definitions/Thing"}},
		},
		"responses": J{
			"200":     J{"description": "neutral", "schema": J{"$ref": "#/definitions/Thing"}, "headers": J{"X-Out": J{"type": "string", "description": "neutral", "default": "neutral"}}},
			"default": J{"description": "neutral", "schema": J{"type": "object", "description": "neutral", "properties": J{"msg": J{"type": "string", "description": "neutral"}}}},
		}}
	at(d, "paths", "/form")["post"] = J{"operationId": "postForm", "tags": A{"things"}, "summary": "neutral", "consumes": A{"application/x-www-form-urlencoded"},
		"parameters": A{J{"in": "formData", "name": "f", "type": "string", "description": "neutral", "default": "neutral"}}, "responses": J{"204": J{"description": "neutral"}}}
	return d
}

func c09Positions() []c09Pos {
	param := func(i int) func(d J) J {
		return func(d J) J { return at(d, "paths", "/things/{id}", "post")["parameters"].([]interface{})[i].(J) }
	}
	return []c09Pos{
		{"info.description", func(d J, s string) { at(d, "info")["description"] = s }},
		{"info.termsOfService", func(d J, s string) { at(d, "info")["termsOfService"] = s }},
		{"info.version", func(d J, s string) { at(d, "info")["version"] = s }},
		{"info.title(--name given)", func(d J, s string) { at(d, "info")["title"] = s }},
		{"info.contact.name", func(d J, s string) { at(d, "info", "contact")["name"] = s }},
		{"info.contact.url", func(d J, s string) { at(d, "info", "contact")["url"] = s }},
		{"info.contact.email", func(d J, s string) { at(d, "info", "contact")["email"] = s }},
		{"info.license.name", func(d J, s string) { at(d, "info", "license")["name"] = s }},
		{"info.license.url", func(d J, s string) { at(d, "info", "license")["url"] = s }},
		{"host", func(d J, s string) { d["host"] = s }},
		{"basePath", func(d J, s string) { d["basePath"] = "/" + s }},
		{"externalDocs.description(root)", func(d J, s string) { at(d, "externalDocs")["description"] = s }},
		{"externalDocs.url(root)", func(d J, s string) { at(d, "externalDocs")["url"] = s }},
		{"tag.description", func(d J, s string) { d["tags"].([]interface{})[0].(J)["description"] = s }},
		{"tag.externalDocs.description", func(d J, s string) { at(d["tags"].([]interface{})[0].(J), "externalDocs")["description"] = s }},
		{"operation.summary", func(d J, s string) { at(d, "paths", "/things/{id}", "post")["summary"] = s }},
		{"operation.description", func(d J, s string) { at(d, "paths", "/things/{id}", "post")["description"] = s }},
		{"operation.externalDocs.description", func(d J, s string) { at(d, "paths", "/things/{id}", "post", "externalDocs")["description"] = s }},
		{"parameter.description(path)", func(d J, s string) { param(0)(d)["description"] = s }},
		{"parameter.description(query)", func(d J, s string) { param(1)(d)["description"] = s }},
		{"parameter.description(header)", func(d J, s string) { param(2)(d)["description"] = s }},
		{"parameter.description(body)", func(d J, s string) { param(3)(d)["description"] = s }},
		{"parameter.description(formData)", func(d J, s string) {
			at(d, "paths", "/form", "post")["parameters"].([]interface{})[0].(J)["description"] = s
		}},
		{"parameter.default(query)", func(d J, s string) { param(1)(d)["default"] = s; delete(param(1)(d), "pattern") }},
		{"parameter.default(header)", func(d J, s string) { param(2)(d)["default"] = s }},
		{"parameter.default(formData)", func(d J, s string) {
			at(d, "paths", "/form", "post")["parameters"].([]interface{})[0].(J)["default"] = s
		}},
		{"parameter.pattern(query)", func(d J, s string) { param(1)(d)["pattern"] = s; delete(param(1)(d), "default") }},
		{"response.description", func(d J, s string) { at(d, "paths", "/things/{id}", "post", "responses", "200")["description"] = s }},
		{"response.description(default)", func(d J, s string) { at(d, "paths", "/things/{id}", "post", "responses", "default")["description"] = s }},
		{"header.description", func(d J, s string) {
			at(d, "paths", "/things/{id}", "post", "responses", "200", "headers", "X-Out")["description"] = s
		}},
		{"header.default", func(d J, s string) {
			at(d, "paths", "/things/{id}", "post", "responses", "200", "headers", "X-Out")["default"] = s
		}},
		{"schema.title", func(d J, s string) { at(d, "definitions", "Thing")["title"] = s }},
		{"schema.description", func(d J, s string) { at(d, "definitions", "Thing")["description"] = s }},
		{"schema.externalDocs.description", func(d J, s string) { at(d, "definitions", "Thing", "externalDocs")["description"] = s }},
		{"schema.example", func(d J, s string) { at(d, "definitions", "Thing")["example"] = J{"name": s} }},
		{"property.description", func(d J, s string) { at(d, "definitions", "Thing", "properties", "name")["description"] = s }},
		{"property.title", func(d J, s string) { at(d, "definitions", "Thing", "properties", "name")["title"] = s }},
		{"property.default", func(d J, s string) {
			at(d, "definitions", "Thing", "properties", "name")["default"] = s
			delete(at(d, "definitions", "Thing", "properties", "name"), "pattern")
		}},
		{"property.example", func(d J, s string) { at(d, "definitions", "Thing", "properties", "name")["example"] = s }},
		{"property.pattern", func(d J, s string) {
			at(d, "definitions", "Thing", "properties", "name")["pattern"] = s
			delete(at(d, "definitions", "Thing", "properties", "name"), "default")
			delete(at(d, "definitions", "Thing"), "example")
		}},
		{"nested-property.description", func(d J, s string) {
			at(d, "definitions", "Thing", "properties", "sub", "properties", "x")["description"] = s
		}},
		{"inline-response-schema.description", func(d J, s string) {
			at(d, "paths", "/things/{id}", "post", "responses", "default", "schema")["description"] = s
		}},
		// URL-valued and remaining free-text fields at every level (round 4: a url is free text as well)
		{"tag.externalDocs.url", func(d J, s string) { at(d["tags"].([]interface{})[0].(J), "externalDocs")["url"] = s }},
		{"operation.externalDocs.url", func(d J, s string) { at(d, "paths", "/things/{id}", "post", "externalDocs")["url"] = s }},
		{"schema.externalDocs.url", func(d J, s string) { at(d, "definitions", "Thing", "externalDocs")["url"] = s }},
		{"parameter.pattern(header)", func(d J, s string) { param(2)(d)["pattern"] = s; delete(param(2)(d), "default") }},
		{"parameter.pattern(formData)", func(d J, s string) {
			p := at(d, "paths", "/form", "post")["parameters"].([]interface{})[0].(J)
			p["pattern"] = s
			delete(p, "default")
		}},
		{"header.pattern", func(d J, s string) {
			h := at(d, "paths", "/things/{id}", "post", "responses", "200", "headers", "X-Out")
			h["pattern"] = s
			delete(h, "default")
		}},
		{"items.default(query array)", func(d J, s string) {
			p := param(1)(d)
			for _, k := range []string{"default", "pattern", "enum", "minLength", "maxLength", "format"} {
				delete(p, k)
			}
			p["type"] = "array"
			p["items"] = J{"type": "string", "default": s}
		}},
		{"items.pattern(query array)", func(d J, s string) {
			p := param(1)(d)
			for _, k := range []string{"default", "pattern", "enum", "minLength", "maxLength", "format"} {
				delete(p, k)
			}
			p["type"] = "array"
			p["items"] = J{"type": "string", "pattern": s}
		}},
		{"response.examples", func(d J, s string) {
			at(d, "paths", "/things/{id}", "post", "responses", "200")["examples"] = J{"application/json": J{"name": s}, "text/plain": s}
		}},
		// enum values: they end up in string literals, in the NAMES of generated constants and in their doc comments;
		// for these positions identifiers are erased from the comparison as well (the code must keep its shape)
		{"property.enum value", func(d J, s string) {
			p := at(d, "definitions", "Thing", "properties", "name")
			for _, k := range []string{"default", "pattern", "example", "minLength", "maxLength"} {
				delete(p, k)
			}
			delete(at(d, "definitions", "Thing"), "example")
			p["enum"] = A{s, "other"}
		}},
		{"definition.enum value", func(d J, s string) { at(d, "definitions")["Kind"] = J{"type": "string", "enum": A{"first", s}} }},
		{"parameter.enum value(query)", func(d J, s string) {
			p := param(1)(d)
			for _, k := range []string{"default", "pattern", "minLength", "maxLength", "format"} {
				delete(p, k)
			}
			p["enum"] = A{s, "x"}
		}},
		{"securityDefinition.description", func(d J, s string) { at(d, "securityDefinitions", "key")["description"] = s }},
		{"securityDefinition.description(oauth2)", func(d J, s string) { at(d, "securityDefinitions", "oauth")["description"] = s }},
		{"scope.description", func(d J, s string) { at(d, "securityDefinitions", "oauth", "scopes")["read"] = s }},
	}
}

func c09Hostile() []scalar {
	return []scalar{
		{"comment-close", "*/"}, {"comment-open", "/*"}, {"dquote", `say "hi"`}, {"backtick", "a`b"}, {"backslash", `a\`}, {"backslash-n", `a\nb`},
		{"newline", "l1\nl2"}, {"cr", "l1\rl2"}, {"crlf", "l1\r\nl2"},
		{"func-injection", "x\n}\nfunc init(){}\n//"}, {"import-injection", `*/ import "os" /*`}, {"init-injection", "*/ func init() { panic(1) } /*"},
		{"backtick-injection", "`+os.Exit(1)+`"}, {"struct-tag-injection", "the name`; Injected bool `of the thing"}, {"raw-string-balanced", "a `b` c"}, {"quote-injection", `"+os.Getenv("X")+"`}, {"tmpl", "{{.}}"}, {"fmt-verbs", "%s%d%!"},
		{"u2028", "a b"}, {"bom", "\ufeffa"}, {"line-comment", "// x"}, {"newline-code", "ok\nvar Injected = 1"}, {"tab", "a\tb"}, {"nul", "a\x00b"},
		// terminators that re-form when a sanitiser removes or rewrites the inner one in a single pass
		{"nested-comment-close", "**// var Injected = 1 //"}, {"doubled-comment-close", "*/*/ var Injected = 1 /*/*"}, {"nested-backtick", "``+os.Exit(1)+``"},
	}
}

// astNorm parses a Go file and prints it with comments dropped and every string/char literal and
// struct tag replaced by a placeholder.
func astNorm(path string) (string, error) { return astNormMode(path, false) }

func astNormMode(path string, loose bool) (string, error) {
	fset := token.NewFileSet()
	f, err := parser.ParseFile(fset, path, nil, 0) // comments are not even attached
	if err != nil {
		return "", err
	}
	ast.Inspect(f, func(n ast.Node) bool {
		switch t := n.(type) {
		case *ast.BasicLit:
			if t.Kind == token.STRING || t.Kind == token.CHAR {
				t.Value = `"_"`
			}
		case *ast.Field:
			if t.Tag != nil {
				t.Tag.Value = "`_`"
			}
		case *ast.Ident:
			if loose {
				t.Name = "_"
			}
		}
		return true
	})
	var buf bytes.Buffer
	if err := printer.Fprint(&buf, token.NewFileSet(), f); err != nil {
		return "", err
	}
	// a concatenation of string literals is one literal (the embedded spec escapes a backtick as
	// ` + "`" + `): fold it, and drop alignment whitespace, which depends on literal lengths
	out := rxConcat.ReplaceAllString(buf.String(), `"_"`)
	out = rxSpaces.ReplaceAllString(out, " ")
	return out, nil
}

// looseNorm: for positions whose text becomes part of identifiers (enum values -> constant names) the
// identifiers are erased too: the files must keep the same declarations, statements and expressions in shape.
var c09Loose bool

func isLoosePosition(pos string) bool { return strings.Contains(pos, "enum value") }

var rxConcat = regexp.MustCompile(`"_"(\s*\+\s*"_")+`)
var rxSpaces = regexp.MustCompile(`[ \t]+`)

// treeNorm returns file -> normalised AST text for every .go file below root.
func treeNorm(root string) (map[string]string, map[string]string) { return treeNormMode(root, false) }

func treeNormMode(root string, loose bool) (map[string]string, map[string]string) {
	out := map[string]string{}
	errs := map[string]string{}
	_ = filepath.Walk(root, func(p string, info os.FileInfo, err error) error {
		if err != nil || info.IsDir() || !strings.HasSuffix(p, ".go") {
			return nil
		}
		rel, _ := filepath.Rel(root, p)
		n, err := astNormMode(p, loose)
		if err != nil {
			errs[rel] = err.Error()
			return nil
		}
		out[rel] = n
		return nil
	})
	return out, errs
}

type c09Case struct {
	Position string `json:"position"`
	Hostile  string `json:"hostile"`
	Text     string `json:"text"`
	Target   string `json:"target"`
	Doc      J      `json:"doc,omitempty"`
}

func c09Generate(s *Scratch, dirName, target string, doc J) (string, CmdResult) {
	dir := filepath.Join(s.Dir, dirName)
	_ = os.RemoveAll(dir)
	must(os.MkdirAll(dir, 0o755))
	sp := filepath.Join(dir, "spec.json")
	must(os.WriteFile(sp, prettyJSON(doc), 0o644))
	args := []string{"--skip-validation"}
	kind := target
	if target == "model+tags" {
		kind = "model"
		args = append(args, "--struct-tags", "description", "--struct-tags", "example")
	}
	if kind != "model" {
		args = append(args, "--name", "verifapp")
	}
	res := s.Generate(kind, sp, dir, args...)
	_ = os.Remove(sp)
	return dir, res
}

func RunC09(tier, replay string) int {
	quietLogs()
	r := evid.New("C09", tier)
	// "model+tags" = generate model --struct-tags description --struct-tags example (free text inside struct tags)
	targets := []string{"server", "client", "cli", "model+tags"}
	if tier == "thorough" {
		targets = []string{"server", "client", "cli", "model", "model+tags"}
	}
	r.Rule = "carrier spec with neutral text in 57 free-text positions (info, contact, license, host, basePath, externalDocs descriptions and urls at 4 levels, tag, operation, parameter descriptions/defaults/patterns per location, response and header descriptions/defaults, schema/property titles, descriptions, defaults, examples, patterns, security definition and scope descriptions); one of 27 hostile strings (comment terminators, quotes, backticks, backslashes, newlines/CR, code-injection payloads, template and format verbs, U+2028, BOM, NUL) placed in ONE position at a time (position pairs in the thorough tier) x targets; generated by the real command with --name; if generation succeeds every file must parse and its AST with comments, string/char literals and struct tags erased must equal the neutral rendering's (same files, same declarations, imports, statements); the neutral rendering itself must build. distinct = (position, hostile string, target); non-trivial = generation succeeded and ASTs were compared"
	r.Assume = []string{"go/parser and go/printer are trusted", "equal erased ASTs + a building neutral rendering imply a building hostile rendering (only literal contents differ)", "--skip-validation is passed so that hostile text in url/email/pattern positions reaches the templates; a generation error is an accepted outcome"}
	s := NewScratch("C09")
	defer s.Close()
	positions := c09Positions()
	hostile := c09Hostile()
	type job struct {
		cs c09Case
	}
	var jobs []job
	if replay != "" {
		r.Replay = true
		var rep struct {
			Case c09Case `json:"case"`
		}
		if err := readJSONFile(replay, &rep); err != nil {
			fmt.Fprintln(os.Stderr, err)
			return 2
		}
		jobs = []job{{rep.Case}}
		targets = []string{rep.Case.Target}
	} else {
		for _, t := range targets {
			for _, p := range positions {
				for _, h := range hostile {
					d := c09Carrier()
					p.Set(d, h.S)
					jobs = append(jobs, job{c09Case{Position: p.Name, Hostile: h.Name, Text: h.S, Target: t, Doc: d}})
				}
			}
			if tier == "thorough" {
				// pairs of positions with the two most dangerous payloads
				for i := range positions {
					for j := i + 1; j < len(positions); j++ {
						for _, h := range []scalar{hostile[0], hostile[9]} {
							d := c09Carrier()
							positions[i].Set(d, h.S)
							positions[j].Set(d, h.S)
							jobs = append(jobs, job{c09Case{Position: positions[i].Name + " + " + positions[j].Name, Hostile: h.Name, Text: h.S, Target: t, Doc: d}})
						}
					}
				}
			}
		}
	}
	// neutral renderings: per target the plain carrier must build; per (target, position) the carrier with
	// the position set to neutral text is the comparand (a position's setter may also remove a sibling
	// keyword, e.g. the pattern next to a default, so the comparand gets the same structural edit)
	neutral := map[string]map[string]string{}
	for _, t := range targets {
		dir, res := c09Generate(s, "neutral-"+t, t, c09Carrier())
		if res.Err != nil {
			r.HarnessError("neutral carrier does not generate for %s: %s", t, lastLines(res.Out, 4))
			return r.Finish()
		}
		b := runCmd(s.Dir, 20*time.Minute, nil, "go", "build", "./"+filepath.Base(dir)+"/...")
		if b.Err != nil {
			r.HarnessError("neutral carrier does not build for %s: %s", t, lastLines(b.Out, 6))
			return r.Finish()
		}
	}
	type nk struct{ t, p string }
	var nkeys []nk
	seenNK := map[nk]bool{}
	posByName := map[string]c09Pos{}
	for _, p := range positions {
		posByName[p.Name] = p
	}
	for _, j := range jobs {
		k := nk{j.cs.Target, j.cs.Position}
		if !seenNK[k] {
			seenNK[k] = true
			nkeys = append(nkeys, k)
		}
	}
	var nmu sync.Mutex
	nfail := false
	parallel(len(nkeys), runtime.NumCPU(), func(_, i int) {
		k := nkeys[i]
		d := c09Carrier()
		for _, pn := range strings.Split(k.p, " + ") {
			posByName[pn].Set(d, "neutral")
		}
		dir, res := c09Generate(s, fmt.Sprintf("n%04d", i), k.t, d)
		defer os.RemoveAll(dir)
		if res.Err != nil {
			r.HarnessError("neutral comparand does not generate for %s / %s: %s", k.t, k.p, lastLines(res.Out, 3))
			nfail = true
			return
		}
		n, errs := treeNormMode(dir, isLoosePosition(k.p))
		if len(errs) > 0 {
			r.HarnessError("neutral comparand does not parse for %s / %s: %v", k.t, k.p, errs)
			nfail = true
			return
		}
		nmu.Lock()
		neutral[k.t+"|"+k.p] = n
		nmu.Unlock()
	})
	if nfail {
		return r.Finish()
	}
	r.Extra["cases"] = len(jobs)
	r.Extra["positions"] = len(positions)
	r.Extra["hostile_strings"] = len(hostile)
	r.Extra["bound_completed"] = "one hostile string in one position (pairs of positions for 2 payloads in thorough)"
	parallel(len(jobs), runtime.NumCPU(), func(w, i int) {
		cs := jobs[i].cs
		key := cs.Target + "|" + cs.Position + "|" + cs.Hostile
		sample := map[string]interface{}{"position": cs.Position, "hostile": cs.Hostile, "text": cs.Text, "target": cs.Target}
		dir, res := c09Generate(s, fmt.Sprintf("h%05d", i), cs.Target, cs.Doc)
		defer os.RemoveAll(dir)
		if res.Err != nil {
			if res.TimedOut {
				r.HarnessError("generation timed out for %s", key)
				return
			}
			r.CaseKeyed(key, sample, false, "generation-refused")
			return
		}
		n, errs := treeNormMode(dir, isLoosePosition(cs.Position))
		outcome := "same-code"
		viol := func(kind, file, what string) {
			outcome = "VIOLATION:" + kind
			r.Violate(evid.Violation{Signature: fmt.Sprintf("%s | %s | %s | %s", kind, cs.Target, cs.Position, fileClass(file)), What: fmt.Sprintf("[%s, position %s, text %q] %s", cs.Target, cs.Position, cs.Text, what), Case: cs})
		}
		if len(errs) > 0 {
			files := make([]string, 0, len(errs))
			for f := range errs {
				files = append(files, f)
			}
			sort.Strings(files)
			viol("unparsable", files[0], fmt.Sprintf("generation exits 0 but %s does not parse: %s", files[0], errs[files[0]]))
		} else {
			base := neutral[cs.Target+"|"+cs.Position]
			var diffs []string
			for f, want := range base {
				got, ok := n[f]
				if !ok {
					diffs = append(diffs, f+" (missing)")
				} else if got != want {
					diffs = append(diffs, f)
				}
			}
			for f := range n {
				if _, ok := base[f]; !ok {
					diffs = append(diffs, f+" (extra)")
				}
			}
			sort.Strings(diffs)
			if len(diffs) > 0 {
				f := strings.Fields(diffs[0])[0]
				viol("code-changed", f, fmt.Sprintf("the text changes the generated CODE (not only comments/literals) of %v: %s", diffs, astDiffHint(base[f], n[f])))
			}
		}
		r.CaseKeyed(key, sample, true, outcome)
	})
	return r.Finish()
}

func fileClass(f string) string {
	// keep directory and a coarse file kind
	d := filepath.Dir(f)
	b := filepath.Base(f)
	for _, k := range []string{"_parameters", "_responses", "_urlbuilder", "_client", "_api", "embedded_spec", "configure_", "doc", "server"} {
		if strings.Contains(b, k) {
			return d + "/*" + k + "*"
		}
	}
	return d + "/" + b
}

func astDiffHint(a, b string) string {
	la, lb := strings.Split(a, "\n"), strings.Split(b, "\n")
	for i := 0; i < len(la) && i < len(lb); i++ {
		if la[i] != lb[i] {
			return fmt.Sprintf("first differing line: neutral %q vs hostile %q", trunc(strings.TrimSpace(la[i]), 120), trunc(strings.TrimSpace(lb[i]), 120))
		}
	}
	return fmt.Sprintf("lengths differ (%d vs %d lines)", len(la), len(lb))
}
