package props

import (
	"fmt"
	"os"
	"runtime"
	"sort"
	"strings"

	"github.com/go-swagger/go-swagger/cmd/swagger/commands/diff"

	"verif/mc/evid"
)

// C14 — swapping the arguments mirrors the report.

type dirClass struct {
	Dir    string // "+", "-", "="
	Family string
}

// mirror table: class of every change code.  μ flips "+" and "-".
var codeClass = map[diff.SpecChangeCode]dirClass{
	diff.NoChangeDetected:          {"=", "NoChange"},
	diff.DeletedProperty:           {"-", "Property"},
	diff.AddedProperty:             {"+", "Property"},
	diff.AddedRequiredProperty:     {"+", "Property"},
	diff.DeletedOptionalParam:      {"-", "OptionalParam"},
	diff.AddedOptionalParam:        {"+", "OptionalParam"},
	diff.DeletedRequiredParam:      {"-", "RequiredParam"},
	diff.AddedRequiredParam:        {"+", "RequiredParam"},
	diff.ChangedDescripton:         {"=", "Description"},
	diff.AddedDescripton:           {"+", "Description"},
	diff.DeletedDescripton:         {"-", "Description"},
	diff.ChangedTag:                {"=", "Tag"},
	diff.AddedTag:                  {"+", "Tag"},
	diff.DeletedTag:                {"-", "Tag"},
	diff.DeletedResponse:           {"-", "Response"},
	diff.AddedResponse:             {"+", "Response"},
	diff.DeletedEndpoint:           {"-", "Endpoint"},
	diff.DeletedDeprecatedEndpoint: {"-", "Endpoint"},
	diff.AddedEndpoint:             {"+", "Endpoint"},
	diff.WidenedType:               {"+", "TypeWidth"},
	diff.NarrowedType:              {"-", "TypeWidth"},
	diff.ChangedToCompatibleType:   {"=", "CompatibleType"},
	diff.ChangedType:               {"=", "Type"},
	diff.AddedEnumValue:            {"+", "EnumValue"},
	diff.DeletedEnumValue:          {"-", "EnumValue"},
	diff.ChangedOptionalToRequired: {"+", "Required"},
	diff.ChangedRequiredToOptional: {"-", "Required"},
	diff.AddedConsumesFormat:       {"+", "Consumes"},
	diff.DeletedConsumesFormat:     {"-", "Consumes"},
	diff.AddedProducesFormat:       {"+", "Produces"},
	diff.DeletedProducesFormat:     {"-", "Produces"},
	diff.AddedSchemes:              {"+", "Schemes"},
	diff.DeletedSchemes:            {"-", "Schemes"},
	diff.ChangedHostURL:            {"=", "Host"},
	diff.ChangedBasePath:           {"=", "BasePath"},
	diff.AddedResponseHeader:       {"+", "ResponseHeader"},
	diff.ChangedResponseHeader:     {"=", "ResponseHeader"},
	diff.DeletedResponseHeader:     {"-", "ResponseHeader"},
	diff.RefTargetChanged:          {"=", "RefTarget"},
	diff.RefTargetRenamed:          {"=", "RefRenamed"},
	diff.DeletedConstraint:         {"-", "Constraint"},
	diff.AddedConstraint:           {"+", "Constraint"},
	diff.DeletedDefinition:         {"-", "Definition"},
	diff.AddedDefinition:           {"+", "Definition"},
	diff.ChangedDefault:            {"=", "Default"},
	diff.AddedDefault:              {"+", "Default"},
	diff.DeletedDefault:            {"-", "Default"},
	diff.ChangedExample:            {"=", "Example"},
	diff.AddedExample:              {"+", "Example"},
	diff.DeletedExample:            {"-", "Example"},
	diff.ChangedCollectionFormat:   {"=", "CollectionFormat"},
	diff.DeletedExtension:          {"-", "Extension"},
	diff.AddedExtension:            {"+", "Extension"},
	diff.ChangedExtensionValue:     {"=", "Extension"},
}

func flip(d string) string {
	switch d {
	case "+":
		return "-"
	case "-":
		return "+"
	}
	return d
}

// locKey is "the same location": URL, method, response code and the path of node *names*; the
// type annotation of a node is descriptive. For whole-response changes the node (Body/NoContent)
// is descriptive too.
func locKey(d diff.SpecDifference, fam string) string {
	var names []string
	if fam != "Response" {
		for n := d.DifferenceLocation.Node; n != nil; n = n.ChildNode {
			names = append(names, n.Field)
		}
	}
	return fmt.Sprintf("%s %s %d %s", d.DifferenceLocation.URL, d.DifferenceLocation.Method, d.DifferenceLocation.Response, strings.Join(names, "."))
}

func mirrorKeys(ds diff.SpecDifferences, mirrored bool) ([]string, error) {
	out := make([]string, 0, len(ds))
	for _, d := range ds {
		cl, ok := codeClass[d.Code]
		if !ok {
			return nil, fmt.Errorf("change code %d (%s) is not in the mirror table", d.Code, d.Code.Description())
		}
		dir := cl.Dir
		if mirrored {
			dir = flip(dir)
		}
		out = append(out, dir+cl.Family+" @ "+locKey(d, cl.Family))
	}
	sort.Strings(out)
	return out, nil
}

func multisetDiff(a, b []string) (onlyA, onlyB []string) {
	m := map[string]int{}
	for _, x := range a {
		m[x]++
	}
	for _, x := range b {
		m[x]--
	}
	keys := make([]string, 0, len(m))
	for k := range m {
		keys = append(keys, k)
	}
	sort.Strings(keys)
	for _, k := range keys {
		for i := 0; i < m[k]; i++ {
			onlyA = append(onlyA, k)
		}
		for i := 0; i < -m[k]; i++ {
			onlyB = append(onlyB, k)
		}
	}
	return
}

type c14Case struct {
	A    string `json:"a"`
	B    string `json:"b"`
	DocA J      `json:"doc_a,omitempty"`
	DocB J      `json:"doc_b,omitempty"`
}

// c14Reps: every pair is compared this many times; diff ranges over maps, so a direction error that
// depends on iteration order must show in one of the repetitions.
var c14Reps = 6

// c14Check compares one ordered pair with its swap c14Reps times. A pair whose verdict changes between
// repetitions is reported as unstable.
func c14Check(cs c14Case) (string, []evid.Violation) {
	reps := c14Reps
	if strings.Count(cs.A, "+")+strings.Count(cs.B, "+") > 0 && !strings.Contains(cs.A, ":old") {
		// pairs of multi-feature family members (thorough tier, ~2M pairs): two repetitions
		reps = 2
	}
	out0, vs0 := c14CheckOnce(cs)
	sig := func(vs []evid.Violation) string {
		var l []string
		for _, v := range vs {
			l = append(l, v.Signature)
		}
		sort.Strings(l)
		return strings.Join(l, " || ")
	}
	for i := 1; i < reps; i++ {
		out, vs := c14CheckOnce(cs)
		if out != out0 || sig(vs) != sig(vs0) {
			return "unstable", []evid.Violation{{Signature: "unstable-report", What: fmt.Sprintf("comparing (%s,%s) and its swap repeatedly gives different verdicts (%s [%s] vs %s [%s]): the reported direction depends on map iteration order", cs.A, cs.B, out0, sig(vs0), out, sig(vs)), Case: cs}}
		}
	}
	return out0, vs0
}

func c14CheckOnce(cs c14Case) (string, []evid.Violation) {
	ab := safeCompare(cs.DocA, cs.DocB)
	ba := safeCompare(cs.DocB, cs.DocA)
	if ab.Panic != "" || ba.Panic != "" || ab.Err != nil || ba.Err != nil {
		return "crash(C12)", nil // totality is C12's business
	}
	ka, err := mirrorKeys(ab.Diffs, true)
	if err != nil {
		return "harness", []evid.Violation{{Signature: "HARNESS", What: err.Error(), Case: cs}}
	}
	kb, _ := mirrorKeys(ba.Diffs, false)
	onlyA, onlyB := multisetDiff(ka, kb)
	if len(onlyA) == 0 && len(onlyB) == 0 && len(ab.Diffs) == len(ba.Diffs) {
		if len(ab.Diffs) == 0 {
			return "mirrored(empty)", nil
		}
		return "mirrored", nil
	}
	// one violation per location component (URL, method, response): the signature is the set of
	// unmatched (direction class @ location) keys of that component, so that one root cause is one
	// signature whatever else differs between the two documents.
	comp := map[string][]string{}
	for _, k := range onlyA {
		c := locComponent(k)
		comp[c] = append(comp[c], "A:"+k)
	}
	for _, k := range onlyB {
		c := locComponent(k)
		comp[c] = append(comp[c], "B:"+k)
	}
	var vs []evid.Violation
	for c, keys := range comp {
		sort.Strings(keys)
		vs = append(vs, evid.Violation{
			Signature: "asym " + strings.Join(dedup(keys), "; "),
			What:      fmt.Sprintf("Compare(%s,%s) is not the mirror image of Compare(%s,%s) at [%s]: unmatched %v (A: only in mirrored A->B, B: only in B->A)", cs.A, cs.B, cs.B, cs.A, c, keys),
			Case:      cs,
			Observed:  map[string]interface{}{"a_to_b": diffStrings(ab.Diffs), "b_to_a": diffStrings(ba.Diffs)},
			Expected:  "multiset{(loc, mirror(code))} of A->B equals multiset{(loc, code)} of B->A, equal lengths",
		})
	}
	if len(vs) == 0 {
		vs = append(vs, evid.Violation{Signature: "count", What: fmt.Sprintf("reports of (%s,%s) have different lengths %d vs %d", cs.A, cs.B, len(ab.Diffs), len(ba.Diffs)), Case: cs})
	}
	return "asymmetric", vs
}

func locComponent(key string) string {
	// key = "<dir><Family> @ <url> <method> <response> <nodes>"
	parts := strings.SplitN(key, " @ ", 2)
	f := strings.Fields(parts[1] + " ")
	if len(f) >= 3 {
		return strings.Join(f[:3], " ")
	}
	return parts[1]
}

func dedup(in []string) []string {
	var out []string
	for i, s := range in {
		if i == 0 || in[i-1] != s {
			out = append(out, s)
		}
	}
	return out
}

func RunC14(tier string, replay string) int {
	quietLogs()
	r := evid.New("C14", tier)
	r.Rule = "ordered pairs (A,B) of diff-family members (9 feature slots, <=k features each) plus every (base, edit(base)) pair of the C13 edit catalogue and its widening twin; each pair is compared in both directions by the real diff.Compare and the reports are compared as multisets of (location, direction class) under the mirror involution. distinct = distinct unordered pair; non-trivial = at least one difference reported"
	r.Assume = []string{"location = URL, method, response code, path of node names (node type annotations are descriptive); for whole-response changes the Body/NoContent node is descriptive", "mirror table over all 56 change codes is part of the oracle (checked for completeness against the code's string table)"}
	if replay != "" {
		r.Replay = true
		var rep struct {
			Case c14Case `json:"case"`
		}
		if err := readJSONFile(replay, &rep); err != nil {
			fmt.Fprintln(os.Stderr, err)
			return 2
		}
		out, vs := c14Check(rep.Case)
		fmt.Println("outcome:", out)
		for _, v := range vs {
			fmt.Println(v.What)
			r.Violate(v)
		}
		return r.Finish()
	}
	k := 1
	if tier == "thorough" {
		k = 2
	}
	fam, _ := Family(k)
	var cases []c14Case
	for i := range fam {
		for j := range fam {
			if i < j {
				cases = append(cases, c14Case{A: fam[i].Name, B: fam[j].Name, DocA: fam[i].Doc, DocB: fam[j].Doc})
			}
		}
	}
	edits := append(EditPairs(tier), NeutralEdits()...)
	for _, e := range edits {
		cases = append(cases, c14Case{A: e.Name + ":old", B: e.Name + ":new", DocA: e.Old, DocB: e.New})
	}
	r.Extra["family_members"] = len(fam)
	r.Extra["edit_pairs"] = len(edits)
	r.Extra["bound_completed"] = fmt.Sprintf("all unordered pairs of family members with <=%d features, all catalogue edit pairs; both directions each", k)
	parallel(len(cases), runtime.NumCPU(), func(_, i int) {
		cs := cases[i]
		out, vs := c14Check(cs)
		for _, v := range vs {
			if v.Signature == "HARNESS" {
				r.HarnessError("%s", v.What)
			} else {
				r.Violate(v)
			}
		}
		r.CaseKeyed(cs.A+"|"+cs.B, map[string]string{"a": cs.A, "b": cs.B, "outcome": out}, out == "mirrored" || out == "asymmetric", out)
	})
	return r.Finish()
}
