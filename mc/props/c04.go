package props

import (
	"encoding/json"
	"fmt"
	"os"
	"runtime"
	"sort"
	"strings"

	"github.com/go-openapi/spec"

	"verif/mc/evid"
	"verif/mc/refbind"
	"verif/mc/xplore"
)

// C04 — generated client and server interoperate losslessly.

type c04RespOp struct {
	ID        string
	Responses J
	Produces  []string
	// Specs: what the handler answers, with the expected classification
	Specs []c04Respond
}

type c04Respond struct {
	Spec     RespondSpec
	Expect   string // success | typed-error | default-error | api-error
	Declared string // the response key that applies
}

func c04ResponseOps() ([]c04RespOp, J) {
	pet := J{"type": "object", "required": A{"name"}, "properties": J{"name": J{"type": "string"}, "tags": J{"type": "array", "items": J{"type": "string"}}, "age": J{"type": "integer"}}}
	errd := J{"type": "object", "properties": J{"code": J{"type": "integer"}, "msg": J{"type": "string"}}}
	defs := J{"Pet": pet, "Err": errd}
	petBody := json.RawMessage(`{"name":"rex","tags":["a","b"],"age":3}`)
	errBody := json.RawMessage(`{"code":7,"msg":"nope"}`)
	rs := func(code int, body json.RawMessage, hdr map[string][]string) RespondSpec {
		return RespondSpec{Code: code, Body: body, Header: hdr}
	}
	ops := []c04RespOp{
		{ID: "rModel", Responses: J{"200": J{"description": "ok", "schema": J{"$ref": "#/definitions/Pet"}}, "404": J{"description": "nf", "schema": J{"$ref": "#/definitions/Err"}}, "default": J{"description": "d", "schema": J{"$ref": "#/definitions/Err"}}},
			Specs: []c04Respond{{rs(200, petBody, nil), "success", "200"}, {rs(404, errBody, nil), "typed-error", "404"}, {rs(500, errBody, nil), "default-error", "default"}, {rs(503, errBody, nil), "default-error", "default"}, {rs(418, errBody, nil), "default-error", "default"}}},
		{ID: "rNoDefault", Responses: J{"200": J{"description": "ok", "schema": J{"$ref": "#/definitions/Pet"}}, "422": J{"description": "inv", "schema": J{"$ref": "#/definitions/Err"}}},
			Specs: []c04Respond{{rs(200, petBody, nil), "success", "200"}, {rs(422, errBody, nil), "typed-error", "422"}, {rs(418, nil, nil), "api-error", ""}, {rs(599, nil, nil), "api-error", ""}, {rs(500, errBody, nil), "api-error", ""}}},
		{ID: "rSeveral2xx", Responses: J{"200": J{"description": "ok", "schema": J{"type": "array", "items": J{"type": "string"}}}, "201": J{"description": "created"}, "204": J{"description": "none"}},
			Specs: []c04Respond{{rs(200, json.RawMessage(`["x","y"]`), nil), "success", "200"}, {rs(201, nil, nil), "success", "201"}, {rs(204, nil, nil), "success", "204"}, {rs(404, nil, nil), "api-error", ""}}},
		{ID: "rHeaders", Responses: J{"200": J{"description": "ok", "schema": J{"type": "string"}, "headers": J{"X-Rate": J{"type": "integer", "format": "int32"}, "X-List": J{"type": "array", "collectionFormat": "pipes", "items": J{"type": "string"}}, "X-When": J{"type": "string", "format": "date-time"}, "X-Flag": J{"type": "boolean"}, "X-Num": J{"type": "number"}}}},
			Specs: []c04Respond{{rs(200, json.RawMessage(`"body text"`), map[string][]string{"X-Rate": {"42"}, "X-List": {"a|b|c"}, "X-When": {"2020-01-02T03:04:05Z"}, "X-Flag": {"true"}, "X-Num": {"2.5"}}), "success", "200"}}},
		{ID: "rDefaultOnly", Responses: J{"default": J{"description": "d", "schema": J{"type": "string"}}},
			Specs: []c04Respond{{rs(500, json.RawMessage(`"boom"`), nil), "default-error", "default"}, {rs(404, json.RawMessage(`"gone"`), nil), "default-error", "default"}}},
		{ID: "rRedirectClass", Responses: J{"200": J{"description": "ok", "schema": J{"$ref": "#/definitions/Pet"}}, "300": J{"description": "choices", "schema": J{"$ref": "#/definitions/Err"}}, "304": J{"description": "not modified"}, "399": J{"description": "odd", "schema": J{"$ref": "#/definitions/Err"}}, "400": J{"description": "bad", "schema": J{"$ref": "#/definitions/Err"}}},
			Specs: []c04Respond{{rs(200, petBody, nil), "success", "200"}, {rs(300, errBody, nil), "typed-error", "300"}, {rs(304, nil, nil), "typed-error", "304"}, {rs(399, errBody, nil), "typed-error", "399"}, {rs(400, errBody, nil), "typed-error", "400"}, {rs(305, nil, nil), "api-error", ""}}},
		{ID: "rBoundary2xx", Responses: J{"200": J{"description": "ok"}, "202": J{"description": "accepted", "schema": J{"$ref": "#/definitions/Pet"}}, "299": J{"description": "last 2xx", "schema": J{"type": "string"}}, "500": J{"description": "err", "schema": J{"$ref": "#/definitions/Err"}}},
			Specs: []c04Respond{{rs(202, petBody, nil), "success", "202"}, {rs(299, json.RawMessage(`"edge"`), nil), "success", "299"}, {rs(500, errBody, nil), "typed-error", "500"}, {rs(200, nil, nil), "success", "200"}}},
		{ID: "rErrorHeaders", Responses: J{"200": J{"description": "ok"}, "429": J{"description": "slow down", "headers": J{"Retry-After": J{"type": "integer"}}, "schema": J{"$ref": "#/definitions/Err"}}},
			Specs: []c04Respond{{rs(429, errBody, map[string][]string{"Retry-After": {"30"}}), "typed-error", "429"}, {rs(200, nil, nil), "success", "200"}}},
	}
	// every registered 2xx status code is a success for the client
	{
		resp, specs := J{}, []c04Respond{}
		for _, code := range []int{200, 201, 202, 203, 206, 207, 208, 226} {
			resp[fmt.Sprint(code)] = J{"description": "2xx", "schema": J{"$ref": "#/definitions/Pet"}}
			specs = append(specs, c04Respond{rs(code, petBody, nil), "success", fmt.Sprint(code)})
		}
		ops = append(ops, c04RespOp{ID: "rEvery2xx", Responses: resp, Specs: specs})
	}
	// "whatever ... body the handler responds with": every answer that carries a payload is also given without
	// one (status and headers only), and every answer with headers also without them; the expectation is the same
	for i := range ops {
		var extra []c04Respond
		for _, sp := range ops[i].Specs {
			if len(sp.Spec.Body) > 0 {
				t := sp
				t.Spec.Body = nil
				t.Spec.Variant = "without payload"
				extra = append(extra, t)
			}
			if len(sp.Spec.Header) > 0 {
				t := sp
				t.Spec.Header = nil
				t.Spec.Variant = "without headers"
				extra = append(extra, t)
			}
		}
		ops[i].Specs = append(ops[i].Specs, extra...)
	}
	return ops, defs
}

type c04Case struct {
	Kind    string       `json:"kind"`
	Op      *OpCase      `json:"op,omitempty"`
	Request interface{}  `json:"request,omitempty"`
	RespOp  string       `json:"response_op,omitempty"`
	Respond *RespondSpec `json:"respond,omitempty"`
}

func RunC04(tier, replay string) int {
	quietLogs()
	r := evid.New("C04", tier)
	bound := 2
	if tier == "thorough" {
		bound = 3
	}
	r.Rule = fmt.Sprintf("requests: every single-parameter operation of the C03 universe with <=%d deviating dimensions (location x type/format x container incl. every collectionFormat and nested arrays x flags; no validation keywords) and the 16 body shapes; for each, every candidate value the reference binder accepts is given to the GENERATED CLIENT (fields set by reflection), sent through an in-process transport to the GENERATED SERVER of the same spec, and the value the server handler receives must equal the value given to the client. responses: 6 operations with declared 2xx / non-2xx / default / header layouts; the stub handler answers each declared code, the default with several codes, and undeclared codes; the client call must return the typed result (declared 2xx), the typed error (other declared codes, default) carrying equal payload and headers, or a generic API error carrying the code. distinct = (operation, value) or (operation, response); non-trivial = the client call was made", bound)
	r.Assume = []string{"go-openapi/runtime client and server middleware are the mechanism under the generated code", "values are compared after the same normalisation as C03 (dates/uuids as strings, instants, nil = absent = empty list)"}
	s := NewScratch("C04")
	defer s.Close()

	// ---------------- request direction
	gen, _ := xplore.Collect(xplore.Options{MaxDeviations: bound}, genParamOp)
	var ops []OpCase
	for _, op := range gen {
		if strings.Contains(op.Class, "| -") && !strings.Contains(op.Class, "| -/") { // no scalar validation, no array validation
			ops = append(ops, op)
		}
	}
	ops = append(ops, c03SpecialOps()...)
	for i := range ops {
		ops[i].ID = fmt.Sprintf("o%04d", i)
	}
	r.Extra["request_operations"] = len(ops)
	per := 30
	docs := packOps(ops, per)
	for _, d := range docs {
		// API-level consumes and produces with different first entries: operations inherit both
		d["consumes"] = A{"application/json"}
		d["produces"] = A{"text/plain", "application/json"}
		// body operations inherit the API-level consumes instead of declaring their own
		for _, pi := range d["paths"].(J) {
			for _, op := range pi.(J) {
				if cs, ok := op.(J)["consumes"].([]interface{}); ok && len(cs) == 1 && cs[0] == "application/json" {
					delete(op.(J), "consumes")
				}
			}
		}
	}
	// ---------------- response direction: one more document
	rops, rdefs := c04ResponseOps()
	rdoc := J{"swagger": "2.0", "info": J{"title": "verif", "version": "1"}, "consumes": A{"application/json"}, "produces": A{"application/json"}, "paths": J{}, "definitions": rdefs}
	for _, ro := range rops {
		at(rdoc, "paths", "/"+ro.ID)["get"] = J{"operationId": ro.ID, "responses": ro.Responses}
	}
	docs = append(docs, rdoc)
	cases := GenInterop(s, docs)
	for i, c := range cases {
		if c.Bin == "" {
			r.Count("documents_dropped(generation or build failure; C01)", 1)
			r.Note("dropped document %d: %s %s", i, c.GenErr, firstLine(c.BuildErr))
		}
	}
	parallel(len(cases)-1, runtime.NumCPU(), func(_, ci int) {
		c := cases[ci]
		if c.Bin == "" {
			return
		}
		lo, hi := ci*per, (ci+1)*per
		if hi > len(ops) {
			hi = len(ops)
		}
		type meta struct {
			op   OpCase
			rr   refbind.Request
			vals map[string]interface{}
		}
		var reqs []InteropReq
		var metas []meta
		for _, op := range ops[lo:hi] {
			var params []spec.Parameter
			for _, p := range op.Params {
				var sp spec.Parameter
				must(json.Unmarshal(mustJSON(p), &sp))
				params = append(params, sp)
			}
			seen := map[string]bool{}
			for _, rr := range c03Requests(op) {
				res := refbind.Bind(params, rr, refbind.Options{Root: normalizeJSON(J{"definitions": op.Defs}), BodyOK: func(schema *spec.Schema, _ interface{}, data interface{}) bool {
					var sj J
					_ = json.Unmarshal(mustJSON(schema), &sj)
					return refValid(sj, J{"definitions": op.Defs}, normalizeJSON(data))
				}})
				if res.Verdict != refbind.Reach {
					continue
				}
				ps := map[string]json.RawMessage{}
				skip := false
				for name, v := range res.Values {
					if _, any := v.(refbind.AnyValue); any {
						skip = true
					}
					if v == nil {
						continue // absent optional: nothing to set
					}
					ps[name] = mustJSON(v)
				}
				if skip {
					continue
				}
				k := string(mustJSON(ps))
				if seen[k] {
					continue
				}
				seen[k] = true
				reqs = append(reqs, InteropReq{Op: op.ID, Params: ps})
				metas = append(metas, meta{op, rr, res.Values})
			}
		}
		res, err := c.Exec(s, reqs)
		if err != nil {
			r.HarnessError("%v", err)
			return
		}
		for i, m := range metas {
			rs := res[i]
			cs := c04Case{Kind: "request", Op: &m.op, Request: reqs[i].Params}
			key := "req|" + m.op.ID + "|" + string(mustJSON(reqs[i].Params))
			out := "equal"
			viol := func(kind, what string) {
				out = "VIOLATION:" + kind
				r.Violate(evid.Violation{Signature: kind + " | " + m.op.Class + " | " + valueClass(reqs[i].Params), What: fmt.Sprintf("%s: operation {%s}, client params %s: %s", kind, m.op.Desc, mustJSON(reqs[i].Params), what), Case: cs,
					Observed: map[string]interface{}{"server_params": rs.ServerParams, "client_error": rs.Error, "wire_status": rs.WireStatus, "set_errors": rs.SetErrors}})
			}
			switch {
			case rs.Panic != "":
				viol("panic", firstLine(rs.Panic))
			case rs.CallErr != "" || len(rs.SetErrors) > 0:
				r.HarnessError("driver could not make the call for {%s}: %s %v", m.op.Desc, rs.CallErr, rs.SetErrors)
				out = "harness"
			case rs.Reached == "":
				et := ""
				if rs.Error != nil {
					et = rs.Error.Text
				}
				viol("not-delivered", fmt.Sprintf("valid parameter values given to the generated client do not reach the generated server's handler (wire status %d, client error %q)", rs.WireStatus, trunc(et, 200)))
			default:
				for name, want := range m.vals {
					if want == nil {
						continue
					}
					var got json.RawMessage
					for f, v := range rs.ServerParams {
						if goFieldKey(f) == goFieldKey(name) {
							got = v
						}
					}
					var gv interface{}
					_ = json.Unmarshal(got, &gv)
					w, g := canonValue(normalizeJSON(canonValue(want))), canonValue(gv)
					if isBodyParam(m.op, name) {
						sch := bodySchema(m.op, name)
						rootJ := J{"definitions": m.op.Defs}
						w = nullArraysAbsent(rewriteDoc(sch, rootJ, w, rewriteOpts{dropUndeclared: true, dropZeroAll: true, nullAsEmpty: true}))
						g = nullArraysAbsent(rewriteDoc(sch, rootJ, g, rewriteOpts{dropUndeclared: true, dropZeroAll: true, nullAsEmpty: true}))
						if isZeroJSON(w) && isZeroJSON(g) {
							continue
						}
					}
					if !jsonEqualNum(numberify(w), numberify(g)) {
						viol("value-changed", fmt.Sprintf("parameter %s: the client was given %s, the server handler received %s", name, mustJSON(want), string(got)))
						break
					}
				}
			}
			r.CaseKeyed(key, map[string]interface{}{"op": m.op.Desc, "params": reqs[i].Params}, true, out)
		}
	})

	// ---------------- file uploads (formData type: file, with and without size limits)
	c04Files(r, s)

	// ---------------- responses
	rc := cases[len(cases)-1]
	if rc.Bin == "" {
		r.HarnessError("response document does not generate/build: %s %s", rc.GenErr, rc.BuildErr)
		return r.Finish()
	}
	var reqs []InteropReq
	type rmeta struct {
		op c04RespOp
		sp c04Respond
	}
	var metas []rmeta
	for _, ro := range rops {
		for _, sp := range ro.Specs {
			spc := sp.Spec
			reqs = append(reqs, InteropReq{Op: ro.ID, Respond: &spc})
			metas = append(metas, rmeta{ro, sp})
		}
	}
	res, err := rc.Exec(s, reqs)
	if err != nil {
		r.HarnessError("%v", err)
		return r.Finish()
	}
	for i, m := range metas {
		rs := res[i]
		cs := c04Case{Kind: "response", RespOp: m.op.ID, Respond: &m.sp.Spec}
		out := m.sp.Expect
		viol := func(kind, what string) {
			out = "VIOLATION:" + kind
			r.Violate(evid.Violation{Signature: joinNonEmpty(" | ", fmt.Sprintf("%s | %s | code %d | expect %s", kind, m.op.ID, m.sp.Spec.Code, m.sp.Expect), m.sp.Spec.Variant), What: fmt.Sprintf("%s: operation %s, handler answers %d %s: %s", kind, m.op.ID, m.sp.Spec.Code, string(m.sp.Spec.Body), what), Case: cs,
				Observed: map[string]interface{}{"results": rs.Results, "error": rs.Error}})
		}
		var val *InteropValue
		switch {
		case rs.Panic != "":
			viol("panic", firstLine(rs.Panic))
		case rs.CallErr != "":
			r.HarnessError("driver could not call %s: %s", m.op.ID, rs.CallErr)
		case m.sp.Expect == "success":
			if rs.Error != nil || len(rs.Results) != 1 {
				viol("not-typed-success", fmt.Sprintf("a declared 2xx answer must come back as one typed result; got %d results, error %v", len(rs.Results), rs.Error))
			} else {
				val = &rs.Results[0]
			}
		case m.sp.Expect == "api-error":
			if rs.Error == nil || !rs.Error.IsAPIErr || rs.Error.Code != m.sp.Spec.Code {
				viol("not-api-error", fmt.Sprintf("an undeclared status code must come back as a generic API error carrying the code; got %+v (results %d)", rs.Error, len(rs.Results)))
			}
		default: // typed-error / default-error
			if rs.Error == nil || rs.Error.IsAPIErr {
				viol("not-typed-error", fmt.Sprintf("a declared non-2xx / default answer must come back as the typed error; got %+v (results %d)", rs.Error, len(rs.Results)))
			} else {
				val = rs.Error
				if m.sp.Expect == "default-error" && rs.Error.Code != m.sp.Spec.Code {
					viol("default-code-lost", fmt.Sprintf("the default response error carries code %d, the handler answered %d", rs.Error.Code, m.sp.Spec.Code))
				}
			}
		}
		if val != nil {
			if len(m.sp.Spec.Body) > 0 {
				var want, got interface{}
				_ = json.Unmarshal(m.sp.Spec.Body, &want)
				_ = json.Unmarshal(val.Fields["Payload"], &got)
				if !jsonEqual(canonValue(want), canonValue(got)) {
					viol("payload-changed", fmt.Sprintf("payload given by the handler %s, payload in the client's %s: %s", string(m.sp.Spec.Body), val.Type, string(val.Fields["Payload"])))
				}
			}
			hdrs := make([]string, 0, len(m.sp.Spec.Header))
			for h := range m.sp.Spec.Header {
				hdrs = append(hdrs, h)
			}
			sort.Strings(hdrs)
			for _, h := range hdrs {
				var got json.RawMessage
				for f, v := range val.Fields {
					if goFieldKey(f) == goFieldKey(h) {
						got = v
					}
				}
				raw := m.sp.Spec.Header[h][0]
				var gv interface{}
				_ = json.Unmarshal(got, &gv)
				// expected typed value: the raw header parsed by its declared type
				want := headerWant(m.op.Responses, m.sp.Declared, h, raw)
				if !jsonEqualNum(numberify(canonValue(normalizeJSON(want))), numberify(canonValue(gv))) {
					viol("header-changed", fmt.Sprintf("response header %s: handler sent %q, the client's %s holds %s", h, raw, val.Type, string(got)))
				}
			}
		}
		r.CaseKeyed(fmt.Sprintf("resp|%s|%d|%s", m.op.ID, m.sp.Spec.Code, m.sp.Spec.Variant), map[string]interface{}{"op": m.op.ID, "handler_answers": m.sp.Spec.Code, "variant": m.sp.Spec.Variant, "expect": m.sp.Expect}, true, out)
	}
	if replay != "" {
		_ = os.Stderr
	}
	return r.Finish()
}

func headerWant(responses J, declared, name, raw string) interface{} {
	h, _ := get(responses, declared, "headers", name).(J)
	switch h["type"] {
	case "integer":
		var i int64
		fmt.Sscan(raw, &i)
		return i
	case "number":
		var f float64
		fmt.Sscan(raw, &f)
		return f
	case "boolean":
		return raw == "true"
	case "array":
		sep := map[string]string{"pipes": "|", "csv": ",", "": ",", "ssv": " ", "tsv": "\t"}[fmt.Sprint(h["collectionFormat"])]
		var out []interface{}
		for _, e := range strings.Split(raw, sep) {
			out = append(out, e)
		}
		return out
	}
	return raw
}

func valueClass(ps map[string]json.RawMessage) string {
	var parts []string
	for _, v := range ps {
		var x interface{}
		_ = json.Unmarshal(v, &x)
		switch t := x.(type) {
		case []interface{}:
			parts = append(parts, fmt.Sprintf("array(len=%d)", len(t)))
		case string:
			if strings.ContainsAny(t, " &?/=+%") {
				parts = append(parts, "string(special)")
			} else if t == "" {
				parts = append(parts, "empty-string")
			} else {
				parts = append(parts, "string")
			}
		case float64:
			if t == 0 {
				parts = append(parts, "zero")
			} else {
				parts = append(parts, "number")
			}
		case bool:
			parts = append(parts, fmt.Sprint(t))
		default:
			parts = append(parts, "object")
		}
	}
	sort.Strings(parts)
	return strings.Join(parts, ",")
}


// c04Files: every upload operation (required/optional x no limit / minLength / maxLength / both, with and
// without a sibling formData field) x every content size inside the limits; the handler must read exactly
// the bytes the client was given.
func c04Files(r *evid.Run, s *Scratch) {
	type fop struct {
		id     string
		desc   string
		param  J
		extra  bool
		lo, hi int
	}
	var ops []fop
	n := 0
	for _, req := range []bool{true, false} {
		for _, lim := range []struct {
			name   string
			kw     J
			lo, hi int
		}{{"nolimit", J{}, 0, 1 << 20}, {"minLength2", J{"minLength": 2}, 2, 1 << 20}, {"maxLength8", J{"maxLength": 8}, 0, 8}, {"min2max8", J{"minLength": 2, "maxLength": 8}, 2, 8}} {
			for _, extra := range []bool{false, true} {
				p := merge(J{"in": "formData", "name": "upfile", "type": "file"}, lim.kw)
				if req {
					p["required"] = true
				}
				ops = append(ops, fop{id: fmt.Sprintf("f%02d", n), desc: fmt.Sprintf("file required=%v %s sibling=%v", req, lim.name, extra), param: p, extra: extra, lo: lim.lo, hi: lim.hi})
				n++
			}
		}
	}
	doc := J{"swagger": "2.0", "info": J{"title": "verif", "version": "1"}, "consumes": A{"multipart/form-data"}, "produces": A{"application/json"}, "paths": J{}}
	for _, o := range ops {
		params := A{o.param}
		if o.extra {
			params = append(params, J{"in": "formData", "name": "note", "type": "string"})
		}
		at(doc, "paths", "/"+o.id)["post"] = J{"operationId": o.id, "consumes": A{"multipart/form-data"}, "parameters": params, "responses": J{"200": J{"description": "ok"}}}
	}
	cases := GenInterop(s, []J{doc})
	if cases[0].Bin == "" {
		r.HarnessError("upload document does not generate/build: %s %s", cases[0].GenErr, firstLine(cases[0].BuildErr))
		return
	}
	contents := []string{"", "a", "ab", "hello", "12345678", "123456789", strings.Repeat("x", 5000), "line1\nline2\r\n\x00\u00e9"}
	var reqs []InteropReq
	type meta struct {
		o       fop
		content string
	}
	var metas []meta
	for _, o := range ops {
		for _, c := range contents {
			if len(c) < o.lo || len(c) > o.hi {
				continue
			}
			ps := map[string]json.RawMessage{"upfile": mustJSON(J{"stream": c})}
			if o.extra {
				ps["note"] = mustJSON("n")
			}
			reqs = append(reqs, InteropReq{Op: o.id, Params: ps})
			metas = append(metas, meta{o, c})
		}
	}
	res, err := cases[0].Exec(s, reqs)
	if err != nil {
		r.HarnessError("%v", err)
		return
	}
	for i, m := range metas {
		rs := res[i]
		out := "equal"
		viol := func(kind, what string) {
			out = "VIOLATION:" + kind
			r.Violate(evid.Violation{Signature: fmt.Sprintf("%s | upload | %s | len=%d", kind, m.o.desc, len(m.content)), What: fmt.Sprintf("%s: upload operation {%s}, content of %d bytes: %s", kind, m.o.desc, len(m.content), what),
				Case: c04Case{Kind: "upload", Request: reqs[i].Params}, Observed: map[string]interface{}{"server_params": rs.ServerParams, "client_error": rs.Error, "wire_status": rs.WireStatus}})
		}
		switch {
		case rs.Panic != "":
			viol("panic", firstLine(rs.Panic))
		case rs.CallErr != "" || len(rs.SetErrors) > 0:
			r.HarnessError("driver could not make the upload call for {%s}: %s %v", m.o.desc, rs.CallErr, rs.SetErrors)
			out = "harness"
		case rs.Reached == "":
			et := ""
			if rs.Error != nil {
				et = rs.Error.Text
			}
			viol("not-delivered", fmt.Sprintf("a file satisfying the declared size limits does not reach the handler (wire status %d, client error %q)", rs.WireStatus, trunc(et, 200)))
		default:
			var got struct {
				Stream *string `json:"stream"`
			}
			for f, v := range rs.ServerParams {
				if goFieldKey(f) == goFieldKey("upfile") {
					_ = json.Unmarshal(v, &got)
				}
			}
			if got.Stream == nil || *got.Stream != m.content {
				g := "<nothing>"
				if got.Stream != nil {
					g = fmt.Sprintf("%d bytes %q", len(*got.Stream), trunc(*got.Stream, 40))
				}
				viol("value-changed", fmt.Sprintf("the client was given %d bytes, the handler read %s", len(m.content), g))
			}
		}
		r.CaseKeyed(fmt.Sprintf("upload|%s|%d", m.o.id, i), map[string]interface{}{"op": m.o.desc, "content_bytes": len(m.content)}, true, out)
	}
	r.Extra["upload_operations"] = len(ops)
}
