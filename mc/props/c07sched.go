package props

import "verif/mc/evid"

// runC07Concurrency: part (b)/(c) of C07 (see c07conc.go once built).
func runC07Concurrency(r *evid.Run, s *Scratch, tier string) {}
