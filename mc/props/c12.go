package props

import (
	"bytes"
	"encoding/json"
	"fmt"
	"io"
	"os"
	"os/exec"
	"path/filepath"
	"regexp"
	"runtime"
	"sort"
	"strings"
	"sync"
	"time"

	"verif/mc/evid"
)

// C12 — diff: a spec never differs from itself, and diff never crashes.
//
// Identity: for every family member A and every re-serialisation ρ (YAML file, reversed key order
// file, reversed parameter lists, reversed enum lists) Compare(A, ρ(A)) is empty and the real
// DiffCommand returns nil for txt, json and -b.
// Totality: for every ordered pair of family members, Compare neither panics nor loops.

type c12Case struct {
	Kind string `json:"kind"` // identity | totality
	A    string `json:"a"`
	B    string `json:"b,omitempty"`
	Rho  string `json:"rho,omitempty"`
	DocA J      `json:"doc_a,omitempty"`
	DocB J      `json:"doc_b,omitempty"`
}

func featureClass(name string) string {
	// "query=3+body=1" -> "query+body"
	parts := strings.Split(name, "+")
	for i, p := range parts {
		if j := strings.Index(p, "="); j > 0 {
			parts[i] = p[:j]
		}
	}
	return strings.Join(parts, "+")
}

func RunC12(tier string, replay string) int {
	quietLogs()
	r := evid.New("C12", tier)
	r.Rule = "family F = base document + 9 feature slots (query/path/header/formData/body parameter shapes, shared path-level parameters, response shapes, definition graphs incl. cycles, metadata), every member with <= k features enumerated by deviation-bounded DFS; identity: every member x 5 re-serialisations through diff.Compare and DiffCommand.Execute(txt,json,-b); totality: every ordered pair of members through diff.Compare. distinct = distinct (kind, A, B/rho); non-trivial = A != base (identity) or A != B (totality)"
	r.Assume = []string{"go-openapi/loads, spec, validate are trusted to load and validate documents", "panics are observed by recover(); non-termination by a 120 s per-case guard (typical case < 1 ms)"}
	dir := os.Getenv("VERIF_C12_DIR")
	if dir == "" {
		dir = ScratchRoot("C12")
		defer os.RemoveAll(dir)
	}

	if replay != "" {
		return replayC12(r, dir, replay)
	}
	if os.Getenv("VERIF_C12_CHILD") == "" {
		// parent: the enumeration runs in a child process, because a fatal runtime error (stack overflow)
		// cannot be recovered in-process
		return c12Parent(tier)
	}

	kIdent, kPairs := 2, 1
	if tier == "thorough" {
		kIdent, kPairs = 2, 2
	}
	famI, stI := Family(kIdent)
	famP, stP := Family(kPairs)
	r.Extra["family_identity"] = map[string]interface{}{"max_features": kIdent, "members": len(famI), "choice_points": stI.Points}
	r.Extra["family_pairs"] = map[string]interface{}{"max_features": kPairs, "members": len(famP), "ordered_pairs": len(famP) * len(famP), "choice_points": stP.Points}
	r.Extra["bound_completed"] = fmt.Sprintf("identity: <=%d features; totality: all ordered pairs of members with <=%d features", kIdent, kPairs)

	// every member must be a valid Swagger 2.0 document, else the family itself is wrong
	invalid := 0
	valid := make([]bool, len(famI))
	parallel(len(famI), runtime.NumCPU(), func(_, i int) {
		if tier != "thorough" && len(famI[i].Feat) > 1 {
			// quick tier: members with one feature are validated; slots edit disjoint parts of the
			// document, so compositions of valid variants are valid (the thorough tier validates all)
			valid[i] = true
			return
		}
		if err := validSpec(famI[i].Doc); err != nil {
			r.HarnessError("family member %s is not a valid spec: %v", famI[i].Name, err)
			invalid++
			return
		}
		valid[i] = true
	})
	validName := map[string]bool{}
	for i, f := range famI {
		if valid[i] {
			validName[f.Name] = true
		}
	}

	wd := newWatchdog(120*time.Second, func(what string) {
		r.Violate(evid.Violation{Signature: "non-termination", What: "diff.Compare did not return within 120 s: " + what, Case: what})
		os.Exit(r.Finish())
	})
	defer wd.close()
	wd.journal = os.Getenv("VERIF_C12_JOURNAL")
	wd.only = os.Getenv("VERIF_C12_ONLY")
	wd.skip = map[string]bool{}
	var fatals []string
	_ = json.Unmarshal([]byte(os.Getenv("VERIF_C12_FATALS")), &fatals)
	for _, f := range fatals {
		wd.skip[f] = true
		if strings.HasPrefix(f, "feature ") {
			wd.skipTokens = append(wd.skipTokens, strings.Fields(f)[1])
		}
		r.Violate(evid.Violation{Signature: "fatal-error | " + fatalClass(f), What: "diff.Compare kills the process (fatal error: stack overflow / unrecoverable runtime error) on: " + f, Case: f})
		r.CaseKeyed("fatal|"+f, map[string]string{"kind": "fatal", "case": f}, true, "fatal-error")
	}

	// ---------- identity (in-process Compare on all re-serialisations)
	rhos := []string{"same", "yaml", "revkeys", "revparams", "revenums"}
	var fileMu sync.Mutex
	parallel(len(famI), runtime.NumCPU(), func(w, i int) {
		f := famI[i]
		if !valid[i] {
			return
		}
		for _, rho := range rhos {
			if !wd.enter(w, "identity "+f.Name+" "+rho) {
				continue
			}
			c12Identity(r, dir, f, rho, w, &fileMu)
			wd.leave(w)
		}
	})

	// ---------- identity through the real command (serial; all single-feature members + base,
	// and in the thorough tier every member)
	for i, f := range famI {
		if !valid[i] {
			continue
		}
		if tier != "thorough" && len(f.Feat) > 1 {
			continue
		}
		if !wd.enter(900, "identity-cmd "+f.Name+" same") {
			continue
		}
		p := filepath.Join(dir, "cmd-a.json")
		py := filepath.Join(dir, "cmd-b.yaml")
		writeJSONFile(p, f.Doc)
		writeYAMLFile(py, f.Doc)
		for _, mode := range []struct {
			format string
			b      bool
		}{{"txt", false}, {"json", false}, {"txt", true}} {
			res := execDiff(dir, p, py, mode.format, mode.b, "")
			cs := c12Case{Kind: "identity-cmd", A: f.Name, Rho: fmt.Sprintf("yaml/%s/b=%v", mode.format, mode.b), DocA: f.Doc}
			out := "ok"
			switch {
			case res.Panic != "":
				out = "panic"
				r.Violate(evid.Violation{Signature: "panic " + panicSite(res.Stack), What: fmt.Sprintf("DiffCommand panics comparing %s with its YAML rendering: %s", f.Name, res.Panic), Case: cs, Observed: res.Stack})
			case res.Err != nil:
				out = "error"
				r.Violate(evid.Violation{Signature: "identity-cmd " + featureClass(f.Name), What: fmt.Sprintf("DiffCommand(%s,b=%v) on %s vs itself returned error %v", mode.format, mode.b, f.Name, res.Err), Case: cs, Observed: res.Output})
			default:
				exp := map[string]bool{"txt/false": strings.TrimSpace(res.Output) == "No changes identified", "json/false": strings.TrimSpace(res.Output) == "[]", "txt/true": strings.Contains(res.Output, "No breaking changes identified")}
				if !exp[fmt.Sprintf("%s/%v", mode.format, mode.b)] {
					out = "nonempty"
					r.Violate(evid.Violation{Signature: "identity-cmd " + featureClass(f.Name), What: fmt.Sprintf("DiffCommand(%s,b=%v) on %s vs itself reports changes", mode.format, mode.b, f.Name), Case: cs, Observed: res.Output})
				}
			}
			r.CaseKeyed("idcmd|"+f.Name+"|"+cs.Rho, map[string]string{"kind": "identity-cmd", "a": f.Name, "mode": cs.Rho}, len(f.Feat) > 0, out)
		}
		wd.leave(900)
	}

	// ---------- totality on ordered pairs
	n := len(famP)
	parallel(n*n, runtime.NumCPU(), func(w, idx int) {
		a, b := famP[idx/n], famP[idx%n]
		if !validName[a.Name] || !validName[b.Name] {
			return
		}
		if !wd.enter(w, "totality "+a.Name+" -> "+b.Name) {
			return
		}
		res := safeCompare(a.Doc, b.Doc)
		wd.leave(w)
		out := fmt.Sprintf("diffs>0:%v", len(res.Diffs) > 0)
		cs := c12Case{Kind: "totality", A: a.Name, B: b.Name, DocA: a.Doc, DocB: b.Doc}
		if res.Panic != "" {
			out = "panic"
			r.Violate(evid.Violation{Signature: "panic " + panicSite(res.Stack), What: fmt.Sprintf("diff.Compare(%s, %s) panics: %s", a.Name, b.Name, res.Panic), Case: cs, Observed: res.Stack})
		} else if res.Err != nil {
			out = "error"
			r.Violate(evid.Violation{Signature: "error " + featureClass(a.Name) + "->" + featureClass(b.Name), What: fmt.Sprintf("diff.Compare(%s, %s) returned an error instead of a report: %v", a.Name, b.Name, res.Err), Case: cs})
		}
		r.CaseKeyed("tot|"+a.Name+"|"+b.Name, map[string]string{"kind": "totality", "a": a.Name, "b": b.Name}, a.Name != b.Name, out)
	})
	if invalid > 0 {
		r.NotExhaustive(fmt.Sprintf("%d family members invalid", invalid))
	}
	return r.Finish()
}

func c12Rho(dir string, f FamSpec, rho string, w int, fileMu *sync.Mutex) (J, J, error) {
	a := f.Doc
	switch rho {
	case "same":
		return a, cloneJ(a), nil
	case "revparams":
		return a, reverseLists(a, map[string]bool{"parameters": true}).(J), nil
	case "revenums":
		return a, reverseLists(a, map[string]bool{"enum": true}).(J), nil
	}
	return a, nil, nil
}

func c12Identity(r *evid.Run, dir string, f FamSpec, rho string, w int, fileMu *sync.Mutex) {
	cs := c12Case{Kind: "identity", A: f.Name, Rho: rho, DocA: f.Doc}
	var res cmpResult
	switch rho {
	case "yaml", "revkeys":
		// through real files and the toolkit's loader
		pa := filepath.Join(dir, fmt.Sprintf("id-%d-a.json", w))
		pb := filepath.Join(dir, fmt.Sprintf("id-%d-b.yaml", w))
		writeJSONFile(pa, f.Doc)
		if rho == "yaml" {
			writeYAMLFile(pb, f.Doc)
		} else {
			pb = filepath.Join(dir, fmt.Sprintf("id-%d-b.json", w))
			_ = os.WriteFile(pb, marshalReversedKeys(f.Doc), 0o644)
		}

		sa, err1 := loadDoc(pa)
		sb, err2 := loadDoc(pb)

		if err1 != nil || err2 != nil {
			r.HarnessError("cannot load re-serialisation %s of %s: %v %v", rho, f.Name, err1, err2)
			return
		}
		res = safeCompareSw(sa, sb)
	default:
		a, b, _ := c12Rho(dir, f, rho, w, fileMu)
		res = safeCompare(a, b)
	}
	out := "empty"
	switch {
	case res.Panic != "":
		out = "panic"
		r.Violate(evid.Violation{Signature: "panic " + panicSite(res.Stack), What: fmt.Sprintf("diff.Compare panics comparing %s with its %s re-serialisation: %s", f.Name, rho, res.Panic), Case: cs, Observed: res.Stack})
	case res.Err != nil:
		out = "error"
		r.Violate(evid.Violation{Signature: "identity-error " + featureClass(f.Name), What: fmt.Sprintf("diff.Compare(%s, %s(%s)) error: %v", f.Name, rho, f.Name, res.Err), Case: cs})
	case len(res.Diffs) > 0:
		out = "nonempty"
		r.Violate(evid.Violation{Signature: "identity " + rho + " " + featureClass(f.Name), What: fmt.Sprintf("%s differs from its own %s re-serialisation: %v", f.Name, rho, diffStrings(res.Diffs)), Case: cs, Observed: diffStrings(res.Diffs)})
	}
	r.CaseKeyed("id|"+f.Name+"|"+rho, map[string]string{"kind": "identity", "a": f.Name, "rho": rho}, len(f.Feat) > 0, out)
}

func replayC12(r *evid.Run, dir, path string) int {
	var rep struct {
		Case c12Case `json:"case"`
	}
	if err := readJSONFile(path, &rep); err != nil {
		fmt.Fprintln(os.Stderr, err)
		return 2
	}
	cs := rep.Case
	var fileMu sync.Mutex
	switch cs.Kind {
	case "identity":
		c12Identity(r, dir, FamSpec{Name: cs.A, Doc: cs.DocA, Feat: []string{"replay"}}, cs.Rho, 0, &fileMu)
	case "identity-cmd":
		p := filepath.Join(dir, "cmd-a.json")
		py := filepath.Join(dir, "cmd-b.yaml")
		writeJSONFile(p, cs.DocA)
		writeYAMLFile(py, cs.DocA)
		for _, m := range []struct {
			f string
			b bool
		}{{"txt", false}, {"json", false}, {"txt", true}} {
			res := execDiff(dir, p, py, m.f, m.b, "")
			fmt.Printf("mode %s b=%v: err=%v panic=%q output=%q\n", m.f, m.b, res.Err, res.Panic, res.Output)
			if res.Panic != "" || res.Err != nil {
				r.Violate(evid.Violation{Signature: "replay", What: "replayed case still fails", Case: cs})
			}
		}
	default:
		res := safeCompare(cs.DocA, cs.DocB)
		fmt.Printf("Compare: err=%v panic=%q diffs=%d\n%s\n", res.Err, res.Panic, len(res.Diffs), res.Stack)
		if res.Panic != "" || res.Err != nil {
			r.Violate(evid.Violation{Signature: "replay", What: "replayed case still fails: " + res.Panic, Case: cs})
		}
	}
	return r.Finish()
}


// fatalClass: "identity <features> <rho>" / "totality <A> -> <B>" with variant numbers kept.
func fatalClass(what string) string { return what }

// c12Parent runs the enumeration in a child process. When the child dies of a fatal runtime error the
// cases the workers were in are re-run alone; the confirmed ones become violations and the enumeration
// is restarted without them.
func c12Parent(tier string) int {
	jdir := ScratchRoot("C12j")
	cdir := ScratchRoot("C12c")
	defer os.RemoveAll(cdir)
	var err error
	if err != nil {
		fmt.Fprintln(os.Stderr, "HARNESS:", err)
		return 2
	}
	defer os.RemoveAll(jdir)
	var fatals []string
	run := func(only string, out io.Writer) (int, string) {
		cmd := exec.Command(os.Args[0], os.Args[1:]...)
		fj, _ := json.Marshal(fatals)
		cmd.Env = append(os.Environ(), "VERIF_C12_CHILD=1", "VERIF_C12_DIR="+cdir, "VERIF_C12_JOURNAL="+jdir, "VERIF_C12_FATALS="+string(fj), "VERIF_C12_ONLY="+only)
		var stderr bytes.Buffer
		cmd.Stdout = out
		cmd.Stderr = &stderr
		err := cmd.Run()
		code := 0
		if ee, ok := err.(*exec.ExitError); ok {
			code = ee.ExitCode()
		} else if err != nil {
			code = 2
		}
		return code, stderr.String()
	}
	for round := 0; round < 12; round++ {
		var out bytes.Buffer
		code, stderr := run("", &out)
		if code == 0 || code == 1 {
			_, _ = os.Stdout.Write(out.Bytes())
			_, _ = os.Stderr.WriteString(stderr)
			return code
		}
		if !strings.Contains(stderr, "fatal error") && !strings.Contains(stderr, "goroutine stack exceeds") {
			_, _ = os.Stdout.Write(out.Bytes())
			_, _ = os.Stderr.WriteString(trunc(stderr, 4000))
			return code
		}
		// suspects: what every worker was doing
		ents, _ := os.ReadDir(jdir)
		suspects := map[string]bool{}
		for _, e := range ents {
			b, _ := os.ReadFile(filepath.Join(jdir, e.Name()))
			if len(b) > 0 {
				suspects[string(b)] = true
			}
			_ = os.Remove(filepath.Join(jdir, e.Name()))
		}
		confirmed := 0
		isFatal := func(c int, se string) bool {
			return c != 0 && c != 1 && (strings.Contains(se, "fatal error") || strings.Contains(se, "goroutine stack exceeds"))
		}
		have := map[string]bool{}
		for _, f := range fatals {
			have[f] = true
		}
		for _, sname := range sortedBoolKeys(suspects) {
			c, se := run(sname, io.Discard)
			if !isFatal(c, se) {
				continue
			}
			// is one feature of the case enough? then every case with that feature is skipped at once
			byFeature := false
			for _, tok := range rxFeature.FindAllString(sname, -1) {
				key := "feature " + tok + " (already diff of the member with itself is fatal)"
				if have[key] {
					byFeature = true
					continue
				}
				if c2, se2 := run("identity "+tok+" same", io.Discard); isFatal(c2, se2) {
					fatals = append(fatals, key)
					have[key] = true
					byFeature = true
					confirmed++
				}
			}
			if !byFeature && !have[sname] {
				fatals = append(fatals, sname)
				have[sname] = true
				confirmed++
			}
		}
		if confirmed == 0 {
			fmt.Fprintln(os.Stderr, "HARNESS: the enumeration process died of a fatal error but no single case reproduces it:", trunc(stderr, 1500))
			return 2
		}
	}
	fmt.Fprintln(os.Stderr, "HARNESS: too many fatal cases")
	return 2
}

var rxFeature = regexp.MustCompile(`[a-z]+=\d+`)

func sortedBoolKeys(m map[string]bool) []string {
	var out []string
	for k := range m {
		out = append(out, k)
	}
	sort.Strings(out)
	return out
}
