package props

import (
	"bytes"
	"encoding/json"
	"fmt"
	"os"
	"path/filepath"
	"runtime"
	"sort"
	"strings"
	"sync"
	"time"

	"verif/mc/evid"
	"verif/mc/xplore"
)

// C16 — scanned model schemas describe the type's actual JSON encoding.

type goType struct {
	Name  string `json:"name"`  // model name, e.g. C0001
	Decl  string `json:"decl"`  // full Go declaration(s)
	Desc  string `json:"desc"`  // e.g. "F []*int32 `json:\"f,omitempty\"`"
	Class string `json:"class"` // signature class: type expression class, tag class
}

var c16Basics = []string{"bool", "string", "int", "int8", "int16", "int32", "int64", "uint", "uint8", "uint16", "uint32", "uint64", "float32", "float64", "byte", "rune"}
var c16Specials = []string{"time.Time", "json.RawMessage", "interface{}", "[]byte", "NamedInt", "NamedString", "NamedStruct", "NamedSlice", "NamedMap", "AliasStruct", "*NamedStruct", "strfmt.UUID", "strfmt.Date", "NamedBytes", "any", "TextVal", "*TextPtr", "map[KindKey]int32", "map[KindKey]NamedStruct"}
var c16Wrappers = []string{"*", "[]", "[2]", "map[string]"}
var c16Tags = []struct{ name, tag string }{
	{"none", ""}, {"rename", `json:"renamed"`}, {"dash", `json:"-"`}, {"omitempty", `json:"f,omitempty"`}, {"string", `json:"f,string"`}, {"rename+omitempty", `json:"renamed,omitempty"`}, {"only-omitempty", `json:",omitempty"`},
}

func typeClass(expr string) string {
	// collapse widths: int8..int64 -> intN
	e := expr
	for _, w := range []string{"int8", "int16", "int32", "int64"} {
		e = strings.ReplaceAll(e, w, "intN")
	}
	for _, w := range []string{"uintN8", "uintN16", "uintN32", "uintN64"} {
		e = strings.ReplaceAll(e, w, "uintN")
	}
	e = strings.ReplaceAll(e, "uintintN", "uintN")
	return e
}

func genGoField(c *xplore.Ctx, depth int) (expr, tagName, tag string) {
	all := append(append([]string{}, c16Basics...), c16Specials...)
	nw := c.Choose(depth+1, "wrappers")
	var base string
	if nw <= 1 {
		base = all[c.Choose(len(all), "base")]
	} else {
		reduced := []string{"string", "int32", "uint8", "float64", "NamedStruct", "time.Time", "bool"}
		base = reduced[c.Choose(len(reduced), "base")]
	}
	expr = base
	for i := 0; i < nw; i++ {
		w := c16Wrappers[c.Choose(len(c16Wrappers), fmt.Sprintf("wrapper%d", i))]
		expr = w + expr
	}
	if strings.HasPrefix(expr, "**") {
		c.Skip()
	}
	t := c16Tags[0]
	if nw == 0 || (nw == 1 && strings.HasPrefix(expr, "*")) || (nw == 1 && strings.HasPrefix(expr, "[]")) {
		t = c16Tags[c.Choose(len(c16Tags), "tag")]
	}
	return expr, t.name, t.tag
}

const c16Prelude = `// Package scanpkg holds the types under test.
package scanpkg

import (
	"encoding/json"
	"strconv"
	"strings"
	"time"

	"github.com/go-openapi/strfmt"
)

var _ = strconv.Itoa
var _ = strings.TrimPrefix
var _ = json.RawMessage{}
var _ = time.Time{}
var _ = strfmt.UUID("")

// NamedInt is a named basic type.
type NamedInt int32

// NamedString is a named string type.
type NamedString string

// NamedBytes is a named byte slice.
type NamedBytes []byte

// NamedStruct is a named struct.
//
// swagger:model
type NamedStruct struct {
	A string ` + "`json:\"a\"`" + `
	B int16  ` + "`json:\"b,omitempty\"`" + `
}

// TextVal encodes as text through value receivers.
type TextVal struct{ N int }

// MarshalText implements encoding.TextMarshaler.
func (t TextVal) MarshalText() ([]byte, error) { return []byte("v" + strconv.Itoa(t.N)), nil }

// UnmarshalText implements encoding.TextUnmarshaler.
func (t *TextVal) UnmarshalText(b []byte) error {
	// any text is accepted: what matters is that the JSON value is a string
	n, err := strconv.Atoi(strings.TrimPrefix(string(b), "v"))
	if err != nil {
		n = len(b)
	}
	t.N = n
	return nil
}

// TextPtr encodes as text through pointer receivers only.
type TextPtr struct{ N int }

// MarshalText implements encoding.TextMarshaler.
func (t *TextPtr) MarshalText() ([]byte, error) { return []byte("p" + strconv.Itoa(t.N)), nil }

// UnmarshalText implements encoding.TextUnmarshaler.
func (t *TextPtr) UnmarshalText(b []byte) error {
	n, err := strconv.Atoi(strings.TrimPrefix(string(b), "p"))
	if err != nil {
		n = len(b)
	}
	t.N = n
	return nil
}

// KindKey is a named string type used as a map key.
type KindKey string

// NamedSlice is a named slice type.
type NamedSlice []string

// NamedMap is a named map type.
type NamedMap map[string]int64

// AliasStruct is an alias.
type AliasStruct = NamedStruct

// Base is embedded by others.
//
// swagger:model
type Base struct {
	ID   int64  ` + "`json:\"id\"`" + `
	Kind string ` + "`json:\"kind,omitempty\"`" + `
}

// Other competes with Base for the JSON name id.
//
// swagger:model
type Other struct {
	ID    string ` + "`json:\"id\"`" + `
	Extra bool   ` + "`json:\"extra\"`" + `
}

type hidden struct {
	Shown  string ` + "`json:\"shown\"`" + `
	secret int
}

// Pair is a generic type.
type Pair[T any] struct {
	First  T ` + "`json:\"first\"`" + `
	Second T ` + "`json:\"second\"`" + `
}
`

func c16SpecialTypes() []goType {
	mk := func(name, class, body string) goType {
		return goType{Name: name, Class: class, Desc: class, Decl: "// " + name + " is under test.\n//\n// swagger:model\ntype " + name + " " + body + "\n"}
	}
	return []goType{
		mk("SEmbedValue", "embedded struct (value)", "struct {\n\tBase\n\tOwn string `json:\"own\"`\n}"),
		mk("SEmbedPtr", "embedded struct (pointer)", "struct {\n\t*Base\n\tOwn string `json:\"own\"`\n}"),
		mk("SEmbedAllOf", "embedded struct with swagger:allOf", "struct {\n\t// swagger:allOf\n\tBase\n\tOwn string `json:\"own\"`\n}"),
		mk("SEmbedTagged", "embedded struct with a json tag", "struct {\n\tBase `json:\"base\"`\n\tOwn string `json:\"own\"`\n}"),
		mk("SEmbedUnexported", "embedded unexported struct type", "struct {\n\thidden\n\tOwn string `json:\"own\"`\n}"),
		// fields that shadow / compete with the fields of an embedding (Go's promotion rules: the shallower field wins,
		// two fields of one JSON name at the same depth cancel each other)
		mk("SShadowSameName", "own field shadows an embedded field (same Go and JSON name, other type)", "struct {\n\tBase\n\tID string `json:\"id\"`\n}"),
		mk("SShadowPtr", "own field shadows a field of an embedded pointer", "struct {\n\t*Base\n\tID string `json:\"id\"`\n\tOwn int32 `json:\"own\"`\n}"),
		mk("SShadowJSONName", "own field takes the JSON name of an embedded field (other Go name, other type)", "struct {\n\tBase\n\tIdent []string `json:\"id\"`\n}"),
		mk("SShadowOmit", "own field shadows an embedded omitempty field", "struct {\n\tBase\n\tKind int32 `json:\"kind\"`\n}"),
		mk("STwoEmbeds", "two embeddings with a field of one JSON name at the same depth", "struct {\n\tBase\n\tOther\n}"),
		mk("SAnonymous", "anonymous struct field", "struct {\n\tIn struct {\n\t\tX int32 `json:\"x\"`\n\t\tY []string `json:\"y,omitempty\"`\n\t} `json:\"in\"`\n}"),
		mk("SAnonymousSlice", "slice of anonymous struct", "struct {\n\tIn []struct {\n\t\tX int32 `json:\"x\"`\n\t} `json:\"in\"`\n}"),
		mk("SUnexported", "unexported field", "struct {\n\tpriv string\n\tPub  string `json:\"pub\"`\n}"),
		mk("SIgnored", "swagger:ignore field", "struct {\n\t// swagger:ignore\n\tSkip string `json:\"skip\"`\n\tKeep string `json:\"keep\"`\n}"),
		mk("SNameIsOption", "json name equal to an option word", "struct {\n\tA int32 `json:\"string\"`\n\tB int32 `json:\"omitempty\"`\n}"),
		mk("STwoTags", "several struct tags", "struct {\n\tA int32 `yaml:\"ya\" json:\"ja,omitempty\" db:\"da\"`\n}"),
		mk("SGeneric", "generic instantiation field", "struct {\n\tP Pair[int32] `json:\"p\"`\n}"),
		mk("SMapOfStructs", "map of named structs", "struct {\n\tM map[string]NamedStruct `json:\"m\"`\n}"),
		mk("SPtrToSlice", "pointer to slice", "struct {\n\tP *[]string `json:\"p,omitempty\"`\n}"),
		mk("SNested", "nested named struct chain", "struct {\n\tN NamedStruct `json:\"n\"`\n\tL []NamedStruct `json:\"l\"`\n\tP *NamedStruct `json:\"p,omitempty\"`\n}"),
		mk("SStringOpt", "string option on several kinds", "struct {\n\tI int64 `json:\"i,string\"`\n\tB bool `json:\"b,string\"`\n\tF float64 `json:\"f,string\"`\n\tS string `json:\"s,string\"`\n\tP *int32 `json:\"p,string\"`\n}"),
		mk("SCaseCollision", "fields differing by case", "struct {\n\tName string `json:\"name\"`\n\tNAME string `json:\"NAME\"`\n}"),
		mk("SDuration", "time.Duration field", "struct {\n\tD time.Duration `json:\"d\"`\n}"),
		mk("SRawPtr", "pointer to RawMessage", "struct {\n\tR *json.RawMessage `json:\"r,omitempty\"`\n}"),
	}
}

func c16Types(tier string) []goType {
	depth := 1
	if tier == "thorough" {
		depth = 2
	}
	type f struct{ expr, tagName, tag string }
	fields, _ := xplore.Collect(xplore.Options{MaxDeviations: -1}, func(c *xplore.Ctx) f {
		e, tn, t := genGoField(c, depth)
		return f{e, tn, t}
	})
	var out []goType
	for i, fl := range fields {
		name := fmt.Sprintf("C%04d", i)
		tag := ""
		if fl.tag != "" {
			tag = " `" + fl.tag + "`"
		}
		decl := fmt.Sprintf("// %s is under test.\n//\n// swagger:model\ntype %s struct {\n\tF %s%s\n\tG string `json:\"g\"`\n}\n", name, name, fl.expr, tag)
		out = append(out, goType{Name: name, Decl: decl, Desc: fmt.Sprintf("F %s%s", fl.expr, tag), Class: typeClass(fl.expr) + " | tag=" + fl.tagName})
	}
	return append(out, c16SpecialTypes()...)
}

const c16DriverTmpl = `// Code generated by the verification harness. DO NOT EDIT.
package main

import (
	"bufio"
	"encoding/json"
	"fmt"
	"os"
	"reflect"
	"time"

	scanpkg "%s"
)

var registry = map[string]func() interface{}{
%s
}

type req struct {
	Type string          ` + "`json:\"type\"`" + `
	Mode string          ` + "`json:\"mode,omitempty\"`" + ` // value construction mode, or "" with Doc
	Doc  json.RawMessage ` + "`json:\"doc,omitempty\"`" + `
}

type res struct {
	JSON         json.RawMessage ` + "`json:\"json,omitempty\"`" + `
	MarshalErr   string          ` + "`json:\"marshal_err,omitempty\"`" + `
	UnmarshalErr string          ` + "`json:\"unmarshal_err,omitempty\"`" + `
	Panic        string          ` + "`json:\"panic,omitempty\"`" + `
}

var timeType = reflect.TypeOf(time.Time{})
var rawType = reflect.TypeOf(json.RawMessage{})

func fill(v reflect.Value, mode string, depth int) {
	if depth > 6 || !v.CanSet() {
		return
	}
	if v.Type() == timeType {
		if mode != "zero" {
			v.Set(reflect.ValueOf(time.Date(2020, 1, 2, 3, 4, 5, 0, time.UTC)))
		}
		return
	}
	if v.Type() == rawType {
		if mode != "zero" && mode != "nil" {
			v.Set(reflect.ValueOf(json.RawMessage("{\"k\":[1,\"x\"]}")))
		}
		return
	}
	switch v.Kind() {
	case reflect.Bool:
		v.SetBool(mode != "zero" && mode != "min")
	case reflect.String:
		if v.Type().PkgPath() != "" && v.Type().Name() == "UUID" {
			// a strfmt.UUID is only meaningful when it holds a UUID
			v.SetString("0a1b2c3d-0000-4000-8000-00000000abcd")
			return
		}
		switch mode {
		case "zero", "min":
		case "strnum":
			v.SetString("12")
		default:
			v.SetString("va")
		}
	case reflect.Int, reflect.Int8, reflect.Int16, reflect.Int32, reflect.Int64:
		bits := v.Type().Bits()
		switch mode {
		case "zero":
		case "min":
			if bits == 64 {
				v.SetInt(-(1<<53 - 1)) // JSON numbers are compared as float64 by the validator
			} else {
				v.SetInt(-1 << (bits - 1))
			}
		case "max":
			if bits == 64 {
				v.SetInt(1<<53 - 1)
			} else {
				v.SetInt(1<<(bits-1) - 1)
			}
		default:
			v.SetInt(7)
		}
	case reflect.Uint, reflect.Uint8, reflect.Uint16, reflect.Uint32, reflect.Uint64, reflect.Uintptr:
		bits := v.Type().Bits()
		switch mode {
		case "zero", "min":
		case "max":
			if bits == 64 {
				v.SetUint(1<<53 - 1)
			} else {
				v.SetUint(1<<bits - 1)
			}
		default:
			v.SetUint(7)
		}
	case reflect.Float32, reflect.Float64:
		switch mode {
		case "zero":
		case "min":
			v.SetFloat(-1.5)
		case "max":
			v.SetFloat(1e20)
		default:
			v.SetFloat(2.5)
		}
	case reflect.Ptr:
		if mode == "zero" || mode == "nil" {
			return
		}
		v.Set(reflect.New(v.Type().Elem()))
		fill(v.Elem(), mode, depth+1)
	case reflect.Slice:
		switch mode {
		case "zero", "nil":
		case "empty":
			v.Set(reflect.MakeSlice(v.Type(), 0, 0))
		default:
			n := 2
			s := reflect.MakeSlice(v.Type(), n, n)
			for i := 0; i < n; i++ {
				fill(s.Index(i), mode, depth+1)
			}
			v.Set(s)
		}
	case reflect.Array:
		for i := 0; i < v.Len(); i++ {
			fill(v.Index(i), mode, depth+1)
		}
	case reflect.Map:
		switch mode {
		case "zero", "nil":
		case "empty":
			v.Set(reflect.MakeMap(v.Type()))
		default:
			m := reflect.MakeMap(v.Type())
			e := reflect.New(v.Type().Elem()).Elem()
			fill(e, mode, depth+1)
			m.SetMapIndex(reflect.ValueOf("k1").Convert(v.Type().Key()), e)
			v.Set(m)
		}
	case reflect.Struct:
		for i := 0; i < v.NumField(); i++ {
			fill(v.Field(i), mode, depth+1)
		}
	case reflect.Interface:
		if mode == "zero" || mode == "nil" {
			return
		}
		if v.NumMethod() == 0 {
			v.Set(reflect.ValueOf(map[string]interface{}{"any": []interface{}{1.5, "s"}}))
		}
	}
}

func one(r req) (out res) {
	defer func() {
		if p := recover(); p != nil {
			out.Panic = fmt.Sprint(p)
		}
	}()
	mk, ok := registry[r.Type]
	if !ok {
		out.Panic = "no such type"
		return
	}
	v := mk()
	if r.Mode != "" {
		fill(reflect.ValueOf(v).Elem(), r.Mode, 0)
		b, err := json.Marshal(v)
		if err != nil {
			out.MarshalErr = err.Error()
			return
		}
		out.JSON = b
		return
	}
	if err := json.Unmarshal(r.Doc, v); err != nil {
		out.UnmarshalErr = err.Error()
	}
	return
}

func main() {
	var reqs []req
	if err := json.NewDecoder(bufio.NewReaderSize(os.Stdin, 1<<20)).Decode(&reqs); err != nil {
		fmt.Fprintln(os.Stderr, "driver: bad input:", err)
		os.Exit(3)
	}
	out := make([]res, len(reqs))
	for i, r := range reqs {
		out[i] = one(r)
	}
	w := bufio.NewWriterSize(os.Stdout, 1<<20)
	_ = json.NewEncoder(w).Encode(out)
	w.Flush()
}
`

type c16Req struct {
	Type string          `json:"type"`
	Mode string          `json:"mode,omitempty"`
	Doc  json.RawMessage `json:"doc,omitempty"`
}
type c16Res struct {
	JSON         json.RawMessage `json:"json,omitempty"`
	MarshalErr   string          `json:"marshal_err,omitempty"`
	UnmarshalErr string          `json:"unmarshal_err,omitempty"`
	Panic        string          `json:"panic,omitempty"`
}

type c16Case struct {
	Type goType          `json:"type"`
	Mode string          `json:"mode,omitempty"`
	Doc  json.RawMessage `json:"doc,omitempty"`
}

// c16Universe writes the package + driver, scans and builds. Returns scanned doc and driver path.
func c16Universe(s *Scratch, types []goType) (J, string, error) {
	pkg := filepath.Join(s.Dir, "scanpkg")
	must(os.MkdirAll(pkg, 0o755))
	var src bytes.Buffer
	src.WriteString(c16Prelude)
	var reg []string
	for _, t := range types {
		src.WriteString("\n" + t.Decl)
		reg = append(reg, fmt.Sprintf("\t%q: func() interface{} { return new(scanpkg.%s) },", t.Name, t.Name))
	}
	must(os.WriteFile(filepath.Join(pkg, "types.go"), src.Bytes(), 0o644))
	drv := filepath.Join(s.Dir, "scandrv")
	must(os.MkdirAll(drv, 0o755))
	must(os.WriteFile(filepath.Join(drv, "main.go"), []byte(fmt.Sprintf(c16DriverTmpl, scratchModule+"/scanpkg", strings.Join(reg, "\n"))), 0o644))
	bin := filepath.Join(s.Dir, "scandrv.bin")
	if b := s.Build(bin, "./scandrv"); b.Err != nil {
		return nil, "", fmt.Errorf("types or driver do not compile: %s", lastLines(b.Out, 8))
	}
	out := filepath.Join(s.Dir, "scanned.json")
	res := runCmd(pkg, 10*time.Minute, nil, SwaggerBin(), "generate", "spec", "-q", "-m", "-o", out, ".")
	if res.Err != nil {
		return nil, bin, fmt.Errorf("SCANFAIL: %s", lastLines(res.Out, 6))
	}
	b, err := os.ReadFile(out)
	if err != nil {
		return nil, bin, err
	}
	var doc J
	if err := json.Unmarshal(b, &doc); err != nil {
		return nil, bin, err
	}
	return doc, bin, nil
}

func c16Exec(s *Scratch, bin string, reqs []c16Req) ([]c16Res, error) {
	in, _ := json.Marshal(reqs)
	out, stderr, err, _ := runCmdSplit(s.Dir, 10*time.Minute, in, bin)
	if err != nil {
		return nil, fmt.Errorf("scan driver: %v: %s", err, lastLines(stderr, 5))
	}
	var res []c16Res
	if err := json.Unmarshal(out, &res); err != nil {
		return nil, err
	}
	return res, nil
}

// inFormatRange: candidate integers outside the declared Go-width format are outside the alphabet.
func inFormatRange(schema J, root J, doc interface{}) bool {
	ok := true
	var walk func(s J, d interface{}, depth int)
	walk = func(s J, d interface{}, depth int) {
		if depth > 8 {
			return
		}
		s = resolveRef(s, root)
		switch t := d.(type) {
		case float64:
			f, _ := s["format"].(string)
			if strings.HasPrefix(f, "uint") && t < 0 {
				ok = false
			}
		case map[string]interface{}:
			props, _, addl, _, _ := declaredProps(s, root)
			for k, v := range t {
				if ps, ok := props[k]; ok {
					walk(ps, v, depth+1)
				} else if addl != nil {
					walk(addl, v, depth+1)
				}
			}
		case []interface{}:
			if it, ok := s["items"].(J); ok {
				for _, v := range t {
					walk(it, v, depth+1)
				}
			}
		}
	}
	walk(schema, doc, 0)
	return ok
}

func RunC16(tier, replay string) int {
	quietLogs()
	r := evid.New("C16", tier)
	r.Rule = "Go model declarations `type Cn struct { F <T> <tag>; G string }`: T = 16 basic kinds and 15 special types (time.Time, json.RawMessage, interface{}, []byte, named basic/struct/slice/map/bytes types, alias, strfmt types) under <=1 (quick) / <=2 (thorough) wrappers out of {*, [], [2], map[string]} x 7 json tag shapes, plus 25 struct shapes (embedded value/pointer/allOf/tagged/unexported, own fields shadowing embedded ones, two embeddings competing for a JSON name, anonymous structs, unexported and ignored fields, strfmt annotation, generic instantiation, ,string on several kinds ...). The package is scanned by the real `swagger generate spec -m` and compiled; values built by reflection (zero, non-zero, min, max, nil vs empty containers, numeric strings) are encoded with encoding/json and validated against the scanned definition; candidate documents the scanned definition accepts are decoded into the type. distinct = (type, value mode | document); non-trivial = the definition exists and the comparison was made"
	r.Assume = []string{"encoding/json is the ground truth; go-openapi/validate decides validity against the scanned definition (rooted at the scanned document)", "integer candidates outside the declared format's range are outside the alphabet"}
	s := NewScratch("C16")
	defer s.Close()
	types := c16Types(tier)
	if replay != "" {
		r.Replay = true
		var rep struct {
			Case c16Case `json:"case"`
		}
		if err := readJSONFile(replay, &rep); err != nil {
			fmt.Fprintln(os.Stderr, err)
			return 2
		}
		types = []goType{rep.Case.Type}
	}
	r.Extra["types"] = len(types)
	t0 := time.Now()
	doc, bin, err := c16Universe(s, types)
	r.Extra["build_and_scan_seconds"] = time.Since(t0).Seconds()
	if err != nil && strings.HasPrefix(err.Error(), "SCANFAIL") && len(types) > 1 {
		// the scanner refuses the whole package: find the culprits by scanning each type alone
		r.Note("package scan failed as a whole: %v; scanning types one by one", err)
		var good []goType
		oks := make([]bool, len(types))
		parallel(len(types), runtime.NumCPU(), func(w, i int) {
			s1 := NewScratch(fmt.Sprintf("C16s%d", i))
			defer s1.Close()
			_, _, e := c16Universe(s1, []goType{types[i]})
			oks[i] = e == nil
			if e != nil {
				r.Violate(evid.Violation{Signature: "scan-fails | " + types[i].Class, What: fmt.Sprintf("generate spec -m fails on a compilable model {%s}: %v", types[i].Desc, e), Case: c16Case{Type: types[i]}})
				r.CaseKeyed("scan|"+types[i].Name, map[string]string{"type": types[i].Desc}, true, "scan-fails")
			}
		})
		for i, ok := range oks {
			if ok {
				good = append(good, types[i])
			}
		}
		types = good
		s2 := NewScratch("C16b")
		defer s2.Close()
		s = s2
		doc, bin, err = c16Universe(s, types)
	}
	if err != nil {
		r.HarnessError("%v", err)
		return r.Finish()
	}
	defs, _ := doc["definitions"].(J)
	root := J{"definitions": defs}
	modes := []string{"zero", "nonzero", "min", "max", "nil", "empty", "strnum"}
	var reqs []c16Req
	var metas []c16Case
	perType := make([][]c16Case, len(types))
	parallel(len(types), runtime.NumCPU(), func(_, ti int) {
		t := types[ti]
		if _, ok := defs[t.Name]; !ok {
			r.Violate(evid.Violation{Signature: "definition-missing | " + t.Class, What: fmt.Sprintf("no definition is scanned for the swagger:model type {%s}", t.Desc), Case: c16Case{Type: t}})
			r.CaseKeyed("def|"+t.Name, map[string]string{"type": t.Desc}, true, "definition-missing")
			return
		}
		var l []c16Case
		for _, m := range modes {
			l = append(l, c16Case{Type: t, Mode: m})
		}
		sch := defs[t.Name].(J)
		n := 0
		if !strings.Contains(t.Decl, ",string") { // a schema cannot say "string holding a number": accepted strings need not decode
			for _, cand := range candidateValues(sch, root, 0) {
				if cand == nil || n >= 40 {
					continue
				}
				cj := normalizeJSON(cand)
				if !refValidKeepDefaults(sch, root, cj) || !inFormatRange(sch, root, cj) {
					continue
				}
				n++
				l = append(l, c16Case{Type: t, Doc: mustJSON(cj)})
			}
			// a property whose schema says nothing accepts any JSON value: each kind must decode
			if props, ok := resolveRef(sch, root)["properties"].(J); ok {
				for pn, ps := range props {
					if !emptySchema(resolveRef(ps.(J), root)) {
						continue
					}
					for _, v := range []interface{}{5, "x", true, A{1}, J{"a": 1}} {
						doc := J{"g": "va"}
						doc[pn] = v
						if refValidKeepDefaults(sch, root, normalizeJSON(doc)) {
							l = append(l, c16Case{Type: t, Doc: mustJSON(doc)})
						}
					}
				}
			}
		}
		perType[ti] = l
	})
	for _, l := range perType {
		for _, m := range l {
			reqs = append(reqs, c16Req{Type: m.Type.Name, Mode: m.Mode, Doc: m.Doc})
			metas = append(metas, m)
		}
	}
	r.Extra["request_preparation_seconds"] = time.Since(t0).Seconds()
	res, err := c16Exec(s, bin, reqs)
	r.Extra["after_driver_seconds"] = time.Since(t0).Seconds()
	if err != nil {
		r.HarnessError("%v", err)
		return r.Finish()
	}
	seenJSON := map[string]bool{}
	var seenMu sync.Mutex
	parallel(len(metas), runtime.NumCPU(), func(_, i int) {
		m := metas[i]
		rs := res[i]
		sch := defs[m.Type.Name].(J)
		if m.Mode != "" {
			if rs.Panic != "" || rs.MarshalErr != "" {
				return // the value cannot be built/encoded (e.g. NaN): outside the property
			}
			k := m.Type.Name + string(rs.JSON)
			seenMu.Lock()
			dup := seenJSON[k]
			seenJSON[k] = true
			seenMu.Unlock()
			if dup {
				return
			}
			var v interface{}
			_ = json.Unmarshal(rs.JSON, &v)
			// Swagger 2.0 has no null type: nil pointers, slices and maps encode as null, which no
			// Swagger schema can describe; null members are outside the alphabet
			v = dropNullElements(nullArraysAbsent(v))
			out := "encoding-valid"
			if !refValidKeepDefaults(sch, root, v) {
				out = "VIOLATION"
				why := validationErrors(sch, root, v)
				r.Violate(evid.Violation{Signature: "encoding-invalid | " + sigTypeClass(m.Type.Class) + " | " + errClass(why), What: fmt.Sprintf("encoding/json output %s of {%s} (value mode %s) is NOT valid for the scanned definition: %s", string(rs.JSON), m.Type.Desc, m.Mode, why), Case: m,
					Observed: map[string]interface{}{"scanned_definition": sch}})
			}
			if m.Mode == "nonzero" && out == "encoding-valid" {
				// property names: a fully populated value shows every JSON key the type has; they must be
				// exactly the properties the scanned definition declares (at every level that declares any)
				var full interface{}
				_ = json.Unmarshal(rs.JSON, &full)
				mm := keyMismatch(sch, root, full, "")
				if strings.Contains(m.Type.Decl, "swagger:ignore") && strings.HasPrefix(mm, "encoded-key-not-declared") {
					mm = "" // the field is left out of the spec on purpose
				}
				if mm != "" {
					out = "VIOLATION"
					r.Violate(evid.Violation{Signature: "property-names | " + sigTypeClass(m.Type.Class) + " | " + strings.SplitN(mm, ":", 2)[0], What: fmt.Sprintf("property names of the scanned definition of {%s} are not those of its JSON encoding %s: %s", m.Type.Desc, string(rs.JSON), mm), Case: m,
						Observed: map[string]interface{}{"scanned_definition": sch}})
				}
			}
			r.CaseKeyed("enc|"+k, map[string]interface{}{"type": m.Type.Desc, "mode": m.Mode, "json": json.RawMessage(rs.JSON)}, true, out)
			return
		}
		out := "decodes"
		if rs.UnmarshalErr != "" || rs.Panic != "" {
			out = "VIOLATION"
			r.Violate(evid.Violation{Signature: "accepted-json-does-not-decode | " + sigTypeClass(m.Type.Class) + " | " + errClass(rs.UnmarshalErr), What: fmt.Sprintf("the scanned definition of {%s} accepts %s but json.Unmarshal into the type fails: %s%s", m.Type.Desc, string(m.Doc), rs.UnmarshalErr, rs.Panic), Case: m,
				Observed: map[string]interface{}{"scanned_definition": sch}})
		}
		r.CaseKeyed("dec|"+m.Type.Name+string(m.Doc), map[string]interface{}{"type": m.Type.Desc, "doc": json.RawMessage(m.Doc)}, true, out)
	})
	return r.Finish()
}

// emptySchema: no keyword that constrains the value (descriptions and extensions aside).
func emptySchema(s J) bool {
	for k := range s {
		if k == "description" || k == "title" || strings.HasPrefix(k, "x-") {
			continue
		}
		return false
	}
	return true
}

// keyMismatch compares the keys of a fully populated encoding with the declared properties.
func keyMismatch(s J, root J, doc interface{}, path string) string {
	s = resolveRef(s, root)
	switch d := doc.(type) {
	case map[string]interface{}:
		props, _, addl, addlAllowed, _ := declaredProps(s, root)
		if len(props) == 0 || addl != nil || addlAllowed {
			// untyped / map-like: keys are data, not property names
			if addl != nil {
				for k, v := range d {
					if mm := keyMismatch(addl, root, v, path+"/"+k); mm != "" {
						return mm
					}
				}
			}
			return ""
		}
		for k := range d {
			if _, ok := props[k]; !ok {
				return fmt.Sprintf("encoded-key-not-declared: %s/%s is encoded by encoding/json but is not a property of the definition (declared: %v)", path, k, sortedPropNames(props))
			}
		}
		for k := range props {
			if _, ok := d[k]; !ok {
				return fmt.Sprintf("declared-property-never-encoded: %s/%s is declared but a fully populated value does not encode it", path, k)
			}
		}
		for k, v := range d {
			if mm := keyMismatch(props[k], root, v, path+"/"+k); mm != "" {
				return mm
			}
		}
	case []interface{}:
		if it, ok := s["items"].(J); ok {
			for _, v := range d {
				if mm := keyMismatch(it, root, v, path+"[]"); mm != "" {
					return mm
				}
			}
		}
	}
	return ""
}

func sortedPropNames(m map[string]J) []string {
	out := make([]string, 0, len(m))
	for k := range m {
		out = append(out, k)
	}
	sort.Strings(out)
	return out
}

// dropNullElements removes null elements from arrays (nil pointers inside Go arrays/slices).
func dropNullElements(v interface{}) interface{} {
	switch t := v.(type) {
	case map[string]interface{}:
		o := J{}
		for k, x := range t {
			o[k] = dropNullElements(x)
		}
		return o
	case []interface{}:
		o := make([]interface{}, 0, len(t))
		for _, x := range t {
			if x != nil {
				o = append(o, dropNullElements(x))
			}
		}
		return o
	}
	return v
}

// sigTypeClass keeps the type-expression class and only the tag classes that change the encoding.
func sigTypeClass(class string) string {
	parts := strings.Split(class, " | tag=")
	if len(parts) == 2 {
		if parts[1] == "string" {
			return parts[0] + " ,string"
		}
		return parts[0]
	}
	return class
}

func errClass(msg string) string {
	for _, k := range []string{"must be of type", "cannot unmarshal", "invalid use of ,string", "is required", "should be", "forbidden", "duplicate"} {
		if strings.Contains(msg, k) {
			if k == "must be of type" || k == "cannot unmarshal" {
				// keep the type pair
				i := strings.Index(msg, k)
				return trunc(strings.TrimSpace(rxDigits.ReplaceAllString(msg[i:], "N")), 70)
			}
			return k
		}
	}
	return trunc(rxDigits.ReplaceAllString(msg, "N"), 50)
}
