package props

import (
	"crypto/sha256"
	"encoding/hex"
	"encoding/json"
	"fmt"
	"os"
	"path/filepath"
	"runtime"
	"sort"
	"strings"
	"time"

	"verif/mc/evid"
	"verif/mc/instrument"
)

// C07 — every command's output depends only on its inputs.
//
// (a) map-iteration orders: instrumented build; every executed range-over-map site is forced, one site
//     at a time, into alternative orders; the output must be byte-identical to the canonical-order run.
// (b) interleavings of concurrent library calls under a cooperative scheduler (c07sched.go).
// (c) free-running -race pass of the same bodies.

// refChainSpec: definitions of grammar G whose context chain goes through $ref contexts (one- and two-hop
// aliases of validated primitives, arrays and maps) - the shapes for which the model builder looks up
// validations of *other* definitions while building one.
func refChainSpec(max int) J {
	defs, _ := EnumerateDefs(1, 2, "R")
	d := J{"swagger": "2.0", "info": J{"title": "refchains", "version": "1"}, "paths": J{}, "definitions": J{}}
	n := 0
	for _, df := range defs {
		parts := strings.Split(df.Chain, ">")
		if len(parts) != 2 || !strings.Contains(df.Chain, "ref") {
			continue
		}
		if df.Kw != "integer:maximum0" && df.Kw != "string:minLength1" {
			continue
		}
		// keep chains made of ref-ish and container contexts only
		ok := true
		for _, c := range parts {
			switch c {
			case "ref", "refprop", "optrefprop", "ref2prop", "ref2objprop", "array", "map", "array+maxItems2", "props+addl":
			default:
				ok = false
			}
		}
		if !ok {
			continue
		}
		if n >= max {
			break
		}
		n++
		for k, v := range df.Defs() {
			at(d, "definitions")[k] = v
		}
	}
	return d
}

func c07DefGraph(changed bool) J {
	ty := func(a, b string) string {
		if changed {
			return b
		}
		return a
	}
	obj := func(props J) J { return J{"type": "object", "properties": props} }
	ref := func(n string) J { return J{"$ref": "#/definitions/" + n} }
	d := J{"swagger": "2.0", "info": J{"title": "g", "version": "1"}, "paths": J{"/a": J{"get": J{"operationId": "getA", "responses": J{"200": J{"description": "ok", "schema": ref("Used")}}}}}}
	defs := J{
		"Used":   obj(J{"a": J{"type": "string"}, "u": ref("Shared")}),
		"Shared": obj(J{"s": J{"type": ty("string", "integer")}}),
		"U1":     obj(J{"x": ref("U2"), "y": J{"type": ty("string", "boolean")}}),
		"U2":     obj(J{"z": ref("U3"), "w": J{"type": ty("integer", "string")}}),
		"U3":     obj(J{"v": J{"type": ty("string", "integer")}}),
		"U4":     obj(J{"q": ref("U2"), "l": J{"type": "array", "items": ref("U3")}}),
		"U6":     obj(J{"only": ref("U7")}),
		"U7":     obj(J{"leaf": J{"type": ty("number", "string")}}),
	}
	if changed {
		defs["U5"] = obj(J{"n": J{"type": "string"}})
	}
	d["definitions"] = defs
	return d
}

func denseSpec() J {
	d := richSpec()
	d["consumes"] = A{"application/json", "application/xml", "application/x-tar.gz", "text/plain"}
	d["produces"] = A{"application/json", "application/xml", "text/csv", "application/x-yaml"}
	d["tags"] = A{J{"name": "pets", "description": "p"}, J{"name": "media"}, J{"name": "misc"}, J{"name": "zeta"}}
	d["x-a"] = 1
	d["x-b"] = J{"k": "v", "l": "w", "m": "x"}
	d["x-c"] = A{3, 2, 1}
	at(d, "info")["x-i1"] = "a"
	at(d, "info")["x-i2"] = "b"
	at(d, "definitions")["Zed"] = J{"type": "object", "properties": J{"z1": J{"type": "string"}, "z2": J{"type": "integer"}, "z3": J{"type": "boolean"}, "a0": J{"type": "number"}}, "x-z": true, "x-y": false}
	at(d, "definitions")["Alpha"] = J{"type": "object", "required": A{"b", "a", "c"}, "properties": J{"a": J{"type": "string", "enum": A{"z", "y", "x"}}, "b": J{"$ref": "#/definitions/Zed"}, "c": J{"type": "array", "items": J{"$ref": "#/definitions/Tag"}}}}
	at(d, "paths", "/pets")["put"] = J{"operationId": "replacePets", "tags": A{"zeta", "pets"}, "consumes": A{"application/xml", "application/json"}, "parameters": A{
		J{"in": "query", "name": "user_id", "type": "string"}, J{"in": "header", "name": "X-Zeta", "type": "string"}, J{"in": "header", "name": "X-Alpha", "type": "integer"},
		J{"in": "body", "name": "body", "schema": J{"$ref": "#/definitions/Alpha"}}},
		"responses": J{"200": J{"description": "ok", "headers": J{"X-Z": J{"type": "string"}, "X-A": J{"type": "integer"}, "X-M": J{"type": "boolean"}}, "schema": J{"$ref": "#/definitions/Alpha"}},
			"400": J{"description": "bad"}, "404": J{"description": "nf"}, "500": J{"description": "err", "schema": J{"$ref": "#/definitions/Error"}}, "default": J{"description": "d"}},
		"security": A{J{"oauth": A{"write", "read"}}, J{"key": A{}, "basic": A{}}}, "x-op-b": 1, "x-op-a": 2}
	at(d, "paths", "/pets")["delete"] = J{"operationId": "deletePets", "tags": A{"pets"}, "responses": J{"204": J{"description": "gone"}, "403": J{"description": "no"}}}
	at(d, "paths", "/zed")["get"] = J{"operationId": "getZed", "produces": A{"text/csv", "application/json"}, "responses": J{"200": J{"description": "ok", "schema": J{"$ref": "#/definitions/Zed"}}}}
	at(d, "paths", "/alpha")["get"] = J{"operationId": "getAlpha", "tags": A{"misc", "media"}, "responses": J{"200": J{"description": "ok", "schema": J{"type": "object", "additionalProperties": J{"$ref": "#/definitions/Alpha"}}}}}
	return d
}

type c07Cmd struct {
	Name string
	// Run executes the command with the given binary in a worker directory and returns the produced
	// artefact (file tree or output bytes) as path -> content.
	Run func(bin, wdir string, env []string) (tree, string)
}

func runBin(bin, dir string, env []string, args ...string) CmdResult {
	// like runCmd, with extra environment
	old := os.Environ()
	_ = old
	if strings.HasSuffix(bin, "swagger-inst") {
		// the instrumented binary: goroutines a command starts are threads of the cooperative scheduler
		env = append(append([]string{}, env...), "VERIF_SCHED=1")
	}
	return runCmdEnv(dir, 10*time.Minute, env, bin, args...)
}

var c07Thorough bool

func c07Commands(s *Scratch) []c07Cmd {
	nref := 40
	if c07Thorough {
		nref = 200
	}
	specs := map[string]J{"dense": denseSpec(), "rich": richSpec(), "refchains": refChainSpec(nref), "cover": c07GenCoverSpec()}
	var out []c07Cmd
	gen := func(kind, specName string, extra ...string) c07Cmd {
		return c07Cmd{Name: fmt.Sprintf("generate %s %s [%s]", kind, strings.Join(extra, " "), specName), Run: func(bin, wdir string, env []string) (tree, string) {
			app := filepath.Join(wdir, "app")
			_ = os.RemoveAll(app)
			must(os.MkdirAll(app, 0o755))
			sp := filepath.Join(wdir, "spec.json")
			must(os.WriteFile(sp, prettyJSON(specs[specName]), 0o644))
			args := []string{"generate", kind, "-q", "-f", sp, "-t", app}
			if kind != "model" && kind != "markdown" && kind != "operation" {
				args = append(args, "--name", "verifapp")
			}
			if kind == "markdown" {
				args = append(args, "--output", "api.md")
			}
			args = append(args, extra...)
			res := runBin(bin, app, env, args...)
			if res.Err != nil {
				return nil, lastLines(res.Out, 4)
			}
			return readTree(app), ""
		}}
	}
	tierSpecs := []string{"dense"}
	if c07Thorough {
		tierSpecs = []string{"dense", "rich"}
	}
	for _, sn := range tierSpecs {
		out = append(out, gen("server", sn), gen("client", sn), gen("model", sn), gen("cli", sn), gen("markdown", sn))
	}
	out = append(out, gen("model", "refchains"))
	// inputs written to reach the map ranges the commands above reach with fewer than two keys (c07cover.go)
	out = append(out, gen("server", "cover"), gen("client", "cover"), gen("model", "cover"), gen("operation", "dense"), gen("support", "dense"))
	// the documented custom layout with skip_format on every template: the raw template output, which
	// goimports would otherwise re-sort and re-format
	out = append(out, c07Cmd{Name: "generate server -C <documented layout + skip_format> [dense]", Run: func(bin, wdir string, env []string) (tree, string) {
		app := filepath.Join(wdir, "app")
		_ = os.RemoveAll(app)
		must(os.MkdirAll(app, 0o755))
		sp := filepath.Join(wdir, "spec.json")
		must(os.WriteFile(sp, prettyJSON(specs["dense"]), 0o644))
		lay := strings.ReplaceAll(documentedServerLayout(), "      file_name:", "      skip_format: true\n      file_name:")
		lp := filepath.Join(wdir, "layout.yml")
		must(os.WriteFile(lp, []byte(lay), 0o644))
		res := runBin(bin, app, env, "generate", "server", "-q", "-f", sp, "-t", app, "--name", "verifapp", "-C", lp)
		if res.Err != nil {
			return nil, lastLines(res.Out, 4)
		}
		return readTree(app), ""
	}})
	if c07Thorough {
		out = append(out, gen("server", "dense", "--skip-tag-packages"), gen("server", "rich", "--with-flatten=full"), gen("server", "rich", "--with-expand"))
	}
	specCmd := func(name string, args func(in, out string) []string, input J, second J) c07Cmd {
		return c07Cmd{Name: name, Run: func(bin, wdir string, env []string) (tree, string) {
			in := filepath.Join(wdir, "in.json")
			must(os.WriteFile(in, prettyJSON(input), 0o644))
			in2 := filepath.Join(wdir, "in2.json")
			if second != nil {
				must(os.WriteFile(in2, prettyJSON(second), 0o644))
			}
			outp := filepath.Join(wdir, "out.txt")
			_ = os.Remove(outp)
			a := args(in, outp)
			for i := range a {
				if a[i] == "@in2" {
					a[i] = in2
				}
			}
			res := runBin(bin, wdir, env, a...)
			b, _ := os.ReadFile(outp)
			// diff exits 1 on breaking changes: the report is the artefact either way
			if res.Err != nil && len(b) == 0 {
				return nil, lastLines(res.Out, 4)
			}
			return tree{"output": string(b)}, ""
		}}
	}
	fam, _ := Family(2)
	var v1, v2 J
	for _, f := range fam {
		if f.Name == "query=4+response=2" {
			v1 = f.Doc
		}
		if f.Name == "body=2+meta=2" {
			v2 = f.Doc
		}
	}
	c1, c2 := c07DiffCoverPair()
	out = append(out,
		specCmd("diff txt [cover pair: several added/deleted/changed entries in every compared map]", func(in, o string) []string { return []string{"diff", in, "@in2", "-d", o} }, c1, c2),
		specCmd("diff json [cover pair: several added/deleted/changed entries in every compared map]", func(in, o string) []string { return []string{"diff", "-f", "json", in, "@in2", "-d", o} }, c1, c2),
		specCmd("diff json [cover pair, swapped]", func(in, o string) []string { return []string{"diff", "-f", "json", in, "@in2", "-d", o} }, c2, c1),
		c07Cmd{Name: "generate spec -i input.json [harness-written program: same-named types in two packages, several extensions per parameter/schema]", Run: func(bin, wdir string, env []string) (tree, string) {
			root := filepath.Join(wdir, "scanprog")
			_ = os.RemoveAll(root)
			in := c07ScanProgram(root)
			outp := filepath.Join(wdir, "out.json")
			_ = os.Remove(outp)
			res := runBin(bin, root, env, "generate", "spec", "-q", "-m", "-i", in, "-o", outp, "./...")
			b, _ := os.ReadFile(outp)
			if res.Err != nil {
				return nil, lastLines(res.Out, 4)
			}
			return tree{"output": string(b)}, ""
		}},
		c07Cmd{Name: "generate spec (no -m) [harness-written program: types discovered from responses and parameters only]", Run: func(bin, wdir string, env []string) (tree, string) {
			root := filepath.Join(wdir, "scanprog")
			_ = os.RemoveAll(root)
			_ = c07ScanProgram(root)
			outp := filepath.Join(wdir, "out.json")
			_ = os.Remove(outp)
			res := runBin(bin, root, env, "generate", "spec", "-q", "-o", outp, "./...")
			b, _ := os.ReadFile(outp)
			if res.Err != nil {
				return nil, lastLines(res.Out, 4)
			}
			return tree{"output": string(b)}, ""
		}},
	)
	out = append(out, c07Cmd{Name: "mixin [rich + 4 mixins touching ordered parts and colliding with each other]", Run: func(bin, wdir string, env []string) (tree, string) {
		files := []string{filepath.Join(wdir, "primary.json")}
		must(os.WriteFile(files[0], prettyJSON(richSpec()), 0o644))
		for i := 0; i < 4; i++ {
			m := J{"swagger": "2.0", "info": J{"title": fmt.Sprintf("mixin %d", i), "version": "1"},
				"consumes": A{fmt.Sprintf("application/x-m%d", i), "application/xml"}, "produces": A{fmt.Sprintf("text/m%d", i)}, "schemes": A{fmt.Sprintf("ws%d", i)},
				"tags":  A{J{"name": fmt.Sprintf("m%d", i)}, J{"name": "shared", "description": fmt.Sprintf("from %d", i)}},
				"paths": J{fmt.Sprintf("/m%d", i): J{"get": J{"operationId": fmt.Sprintf("getM%d", i), "responses": J{"200": J{"description": "ok"}}}}, "/shared": J{"get": J{"operationId": "getShared", "summary": fmt.Sprintf("from %d", i), "responses": J{"200": J{"description": "ok"}}}}},
				"definitions":         J{fmt.Sprintf("M%d", i): J{"type": "object"}, "Shared": J{"type": "object", "properties": J{fmt.Sprintf("p%d", i): J{"type": "string"}}}},
				"securityDefinitions": J{fmt.Sprintf("k%d", i): J{"type": "apiKey", "in": "header", "name": "X"}, "sharedKey": J{"type": "apiKey", "in": "query", "name": fmt.Sprintf("q%d", i)}},
				"security":            A{J{fmt.Sprintf("k%d", i): A{}}}}
			fp := filepath.Join(wdir, fmt.Sprintf("mixin%d.json", i))
			must(os.WriteFile(fp, prettyJSON(m), 0o644))
			files = append(files, fp)
		}
		outp := filepath.Join(wdir, "out.txt")
		_ = os.Remove(outp)
		res := runBin(bin, wdir, env, append([]string{"mixin", "--ignore-conflicts", "-o", outp}, files...)...)
		b, _ := os.ReadFile(outp)
		if res.Err != nil && len(b) == 0 {
			return nil, lastLines(res.Out, 4)
		}
		// the collision report (stderr/stdout of the command) is part of the artefact
		var rep []string
		for _, l := range strings.Split(res.Out, "\n") {
			if i := strings.Index(l, " "); i > 0 && strings.Contains(l, "collision") { // drop the log time stamp
				rep = append(rep, l[strings.Index(l, "collision"):])
			}
		}
		return tree{"output": string(b), "collisions": strings.Join(rep, "\n")}, ""
	}})
	k1, k2 := filepath.Join(RepoDir(), "fixtures/diff/kitchensink.v1.json"), filepath.Join(RepoDir(), "fixtures/diff/kitchensink.v2.json")
	// a definition graph with definitions no operation uses, referring to each other, each one changed
	g1, g2 := c07DefGraph(false), c07DefGraph(true)
	out = append(out,
		specCmd("diff txt [definition graph with unused definitions]", func(in, o string) []string { return []string{"diff", in, "@in2", "-d", o} }, g1, g2),
		specCmd("diff json [definition graph with unused definitions]", func(in, o string) []string { return []string{"diff", "-f", "json", in, "@in2", "-d", o} }, g1, g2),
	)
	out = append(out,
		specCmd("flatten [dense]", func(in, o string) []string { return []string{"flatten", in, "-o", o} }, denseSpec(), nil),
		specCmd("flatten --with-flatten=full [dense]", func(in, o string) []string { return []string{"flatten", "--with-flatten=full", in, "-o", o} }, denseSpec(), nil),
		specCmd("expand [dense]", func(in, o string) []string { return []string{"expand", in, "-o", o} }, denseSpec(), nil),
		specCmd("expand --format yaml [dense]", func(in, o string) []string { return []string{"expand", "--format", "yaml", in, "-o", o} }, denseSpec(), nil),
		specCmd("mixin [rich + dense]", func(in, o string) []string { return []string{"mixin", "--ignore-conflicts", in, "@in2", "-o", o} }, richSpec(), denseSpec()),
		specCmd("diff txt [family pair]", func(in, o string) []string { return []string{"diff", in, "@in2", "-d", o} }, v1, v2),
		specCmd("diff json [family pair]", func(in, o string) []string { return []string{"diff", "-f", "json", in, "@in2", "-d", o} }, v1, v2),
		specCmd("diff txt [dense vs rich]", func(in, o string) []string { return []string{"diff", in, "@in2", "-d", o} }, denseSpec(), richSpec()),
		specCmd("diff json [dense vs rich]", func(in, o string) []string { return []string{"diff", "-f", "json", in, "@in2", "-d", o} }, denseSpec(), richSpec()),
		c07Cmd{Name: "diff json [fixtures kitchensink v1 v2]", Run: func(bin, wdir string, env []string) (tree, string) {
			outp := filepath.Join(wdir, "out.txt")
			_ = os.Remove(outp)
			res := runBin(bin, wdir, env, "diff", "-f", "json", k1, k2, "-d", outp)
			b, _ := os.ReadFile(outp)
			if res.Err != nil && len(b) == 0 {
				return nil, lastLines(res.Out, 4)
			}
			return tree{"output": string(b)}, ""
		}},
		c07Cmd{Name: "generate spec [fixtures/goparsing/classification]", Run: func(bin, wdir string, env []string) (tree, string) {
			outp := filepath.Join(wdir, "out.json")
			_ = os.Remove(outp)
			res := runBin(bin, filepath.Join(RepoDir(), "fixtures/goparsing/classification"), env, "generate", "spec", "-q", "-m", "-o", outp, "./...")
			b, _ := os.ReadFile(outp)
			if res.Err != nil {
				return nil, lastLines(res.Out, 4)
			}
			return tree{"output": string(b)}, ""
		}},
	)
	return out
}

func (t tree) firstDifference(o tree) string {
	var keys []string
	for k := range t {
		keys = append(keys, k)
	}
	for k := range o {
		if _, ok := t[k]; !ok {
			keys = append(keys, k)
		}
	}
	sort.Strings(keys)
	for _, k := range keys {
		a, ok1 := t[k]
		b, ok2 := o[k]
		switch {
		case !ok1:
			return k + " (only in the permuted run)"
		case !ok2:
			return k + " (missing in the permuted run)"
		case a != b:
			return k + ": " + firstDiffLine(a, b)
		}
	}
	return ""
}

type c07Case struct {
	Command string `json:"command"`
	Site    string `json:"site,omitempty"`
	Func    string `json:"func,omitempty"`
	Policy  string `json:"policy,omitempty"`
	Kind    string `json:"kind"`
}

func treeHash(t tree) string {
	h := sha256.Sum256([]byte(t.hash()))
	return hex.EncodeToString(h[:6])
}

func RunC07(tier, replay string) int {
	quietLogs()
	r := evid.New("C07", tier)
	r.Rule = "(a) instrumented build (every range over a map in generator/, codescan/, cmd/swagger/... iterates keys in a canonical sorted order that the explorer can permute per static site); commands = generate {server, client, model, cli, markdown} on two collision-dense specs (+ skip-tag-packages, full flatten, expand), flatten, expand (json, yaml), mixin, diff (txt, json; 3 input pairs), generate spec on the scanner fixtures; for every command, every site executed with a map of >=2 entries is forced into each alternative order {reverse, rotate-1, swap-first-two, swap-last-two; all n! orders when n<=3 in the thorough tier}, one site at a time (deviation bound 1; site pairs in thorough), and the artefact must be byte-identical to the canonical run; the uninstrumented binary is run 3 times in fresh processes and must reproduce the canonical artefact (hook-coverage proof). (b) two/three concurrent library generations under a cooperative scheduler with scheduling points at mutex operations and at statements touching written package-level variables, preemption-bounded DFS; each thread's output must equal its sequential output. (c) the same bodies free-running under -race. distinct = (command, site, policy) or schedule; non-trivial = site reached with >=2 keys"
	r.Assume = []string{"map iteration is the only nondeterminism owned in (a); anything else (time, randomness, goroutines in dependencies) is detected by the 3 fresh-process runs of the uninstrumented binary", "range-over-map sites inside dependencies (go-openapi/*) are not instrumented; they are covered by the fresh-process comparison only"}
	s := NewScratch("C07")
	defer s.Close()
	if os.Getenv("VERIF_C07_PART") == "b" { // development aid: only the concurrency part
		r.Prop = "C07b"
		runC07Concurrency(r, s, tier)
		return r.Finish()
	}

	// ---- instrument + build
	instDir := filepath.Join(s.Dir, "inst")
	t0 := time.Now()
	ires, err := instrument.Run(instrument.Options{Repo: RepoDir(), OutDir: instDir, VrtSource: filepath.Join(os.Getenv("VERIF_ROOT"), "mc", "rt", "vrt.go.src"),
		Patterns: []string{"./generator/...", "./codescan/...", "./cmd/swagger/..."}, Goroutines: true})
	if err != nil {
		r.HarnessError("instrumentation failed: %v", err)
		return r.Finish()
	}
	instBin := filepath.Join(s.Dir, "swagger-inst")
	b := runCmd(RepoDir(), 20*time.Minute, nil, "go", "build", "-overlay", ires.Overlay, "-o", instBin, "./cmd/swagger")
	if b.Err != nil {
		r.HarnessError("instrumented build failed: %s", lastLines(b.Out, 8))
		return r.Finish()
	}
	r.Extra["instrumented_map_range_sites"] = len(ires.Sites)
	r.Extra["map_ranges_left_uninstrumented"] = ires.Skipped
	r.Extra["instrument_and_build_seconds"] = time.Since(t0).Seconds()
	siteByID := map[int]instrument.Site{}
	for _, st := range ires.Sites {
		siteByID[st.ID] = st
	}

	nw := runtime.NumCPU()
	wdirs := make([]string, nw)
	for i := range wdirs {
		wdirs[i] = filepath.Join(s.Dir, fmt.Sprintf("w%02d", i))
		must(os.MkdirAll(wdirs[i], 0o755))
		gm, _ := os.ReadFile(filepath.Join(s.Dir, "go.mod"))
		must(os.WriteFile(filepath.Join(wdirs[i], "go.mod"), gm, 0o644))
		gs, _ := os.ReadFile(filepath.Join(s.Dir, "go.sum"))
		must(os.WriteFile(filepath.Join(wdirs[i], "go.sum"), gs, 0o644))
	}
	c07Thorough = tier == "thorough"
	cmds := c07Commands(s)
	if !c07Thorough {
		var keep []c07Cmd
		for _, c := range cmds {
			if strings.Contains(c.Name, "[dense vs rich]") || strings.Contains(c.Name, "flatten --with-flatten=full") || strings.Contains(c.Name, "diff txt [family pair]") {
				continue
			}
			keep = append(keep, c)
		}
		cmds = keep
	}
	if only := os.Getenv("VERIF_C07_ONLY"); only != "" && replay == "" { // development aid: some commands, part (a) only
		var keep []c07Cmd
		for _, c := range cmds {
			if strings.Contains(c.Name, only) {
				keep = append(keep, c)
			}
		}
		cmds = keep
		r.Prop = "C07dev"
	}
	if replay != "" {
		r.Replay = true
		var rep struct {
			Case c07Case `json:"case"`
		}
		if err := readJSONFile(replay, &rep); err != nil {
			fmt.Fprintln(os.Stderr, err)
			return 2
		}
		if rep.Case.Command == "" {
			// a schedule / race case: the whole concurrency part is re-run (about a minute)
			runC07Concurrency(r, s, tier)
			return r.Finish()
		}
		var keep []c07Cmd
		for _, c := range cmds {
			if c.Name == rep.Case.Command {
				keep = append(keep, c)
			}
		}
		cmds = keep
	}

	// ---- baselines and reached sites
	type base struct {
		t     tree
		err   string
		sites map[int]int // site -> max length seen
		sched []int       // enabled threads at every scheduling decision of the default schedule
		tied  []string    // sites ranged with keys that print alike (no canonical order exists)
	}
	bases := make([]base, len(cmds))
	parallel(len(cmds), nw, func(w, i int) {
		logf := filepath.Join(wdirs[w], "maplog.txt")
		_ = os.Remove(logf)
		slog := filepath.Join(wdirs[w], "schedlog.txt")
		_ = os.Remove(slog)
		t, e := cmds[i].Run(instBin, wdirs[w], []string{"VERIF_MAPLOG=" + logf, "VERIF_SCHED_LOG=" + slog})
		bs := base{t: t, err: e, sites: map[int]int{}}
		if sb, err := os.ReadFile(slog); err == nil {
			for _, l := range strings.Split(string(sb), "\n") {
				var site, en, run, ch int
				if _, err := fmt.Sscanf(l, "%d %d %d %d", &site, &en, &run, &ch); err == nil {
					bs.sched = append(bs.sched, en)
				}
			}
		}
		if lb, err := os.ReadFile(logf); err == nil {
			for _, l := range strings.Split(string(lb), "\n") {
				var id, n int
				if _, err := fmt.Sscanf(l, "T %d", &id); err == nil {
					bs.tied = append(bs.tied, siteByID[id].Pos)
					continue
				}
				if _, err := fmt.Sscanf(l, "%d %d", &id, &n); err == nil && n > bs.sites[id] {
					bs.sites[id] = n
				}
			}
		}
		bases[i] = bs
	})

	// ---- hook-coverage proof: the instrumented binary with every map in canonical order must give the
	// same artefact in two more fresh processes (otherwise something the hooks do not own varies).
	// ---- direct check of the statement: the UNinstrumented binary run 3 times in fresh processes.
	unstable := make([]bool, len(cmds))
	// a command recorded as unstable (known finding "unowned-nondeterminism | <command>") cannot be used to
	// blame map-order sites, whether or not this run happens to observe the instability
	knownSigs := evid.KnownSignatures("C07")
	for i := range cmds {
		if knownSigs["unowned-nondeterminism | "+cmds[i].Name] {
			unstable[i] = true
		}
	}
	plain := make([][]tree, len(cmds))
	for i := range plain {
		plain[i] = make([]tree, 3)
	}
	parallel(len(cmds)*5, nw, func(w, j int) {
		i, k := j/5, j%5
		if bases[i].err != "" {
			return
		}
		if k < 3 {
			t, e := cmds[i].Run(SwaggerBin(), wdirs[w], nil)
			if e != "" {
				r.Violate(evid.Violation{Signature: "fresh-process-error | " + cmds[i].Name, What: fmt.Sprintf("%s: the uninstrumented binary fails (%s) while the instrumented canonical run succeeded", cmds[i].Name, e), Case: c07Case{Command: cmds[i].Name, Kind: "fresh-process"}})
				return
			}
			plain[i][k] = t
			return
		}
		t, e := cmds[i].Run(instBin, wdirs[w], nil)
		out := "identical"
		if e != "" || bases[i].t.firstDifference(t) != "" {
			out = "DIFFERS"
			unstable[i] = true
			fd := e
			if e == "" {
				fd = bases[i].t.firstDifference(t)
			}
			tied := ""
			if len(bases[i].tied) > 0 {
				tied = fmt.Sprintf("; or the range at %v, whose keys print alike so that no canonical order exists for it", bases[i].tied)
			}
			r.Violate(evid.Violation{Signature: "unowned-nondeterminism | " + cmds[i].Name, What: fmt.Sprintf("%s: two runs with every go-swagger map iterated in the same canonical order give different artefacts (%s): a source of nondeterminism outside the instrumented map ranges (a dependency, time, randomness)%s", cmds[i].Name, fd, tied), Case: c07Case{Command: cmds[i].Name, Kind: "canonical-repeat"}})
		}
		r.CaseKeyed(fmt.Sprintf("canon|%s|%d", cmds[i].Name, k), map[string]string{"command": cmds[i].Name, "run": "instrumented canonical run repeated"}, true, out)
	})
	for i := range cmds {
		if bases[i].err != "" || plain[i][0] == nil {
			continue
		}
		out := "identical"
		for k := 1; k < 3; k++ {
			if plain[i][k] == nil {
				continue
			}
			if fd := plain[i][0].firstDifference(plain[i][k]); fd != "" {
				out = "DIFFERS"
				r.Violate(evid.Violation{Signature: "repeat-run-differs | " + cmds[i].Name, What: fmt.Sprintf("%s: repeating the run of the unmodified binary in a new process gives a different artefact: %s", cmds[i].Name, fd), Case: c07Case{Command: cmds[i].Name, Kind: "fresh-process"}})
				break
			}
		}
		r.CaseKeyed("fresh|"+cmds[i].Name, map[string]string{"command": cmds[i].Name, "run": "unmodified binary x3 in fresh processes"}, true, out)
	}

	// ---- goroutines started by the commands themselves: every schedule with one deviation from the default
	// one (spawn order, each goroutine running to its end) must give the canonical artefact
	{
		goSites, withDecisions, schedRuns := 0, 0, 0
		for _, st := range ires.Sites {
			if st.Kind == "go" {
				goSites++
			}
		}
		type sjob struct {
			ci      int
			choices string
		}
		var sjobs []sjob
		for i := range cmds {
			if bases[i].err != "" || len(bases[i].sched) == 0 {
				continue
			}
			withDecisions++
			for d, en := range bases[i].sched {
				for alt := 1; alt < en; alt++ {
					sjobs = append(sjobs, sjob{i, strings.Repeat("0,", d) + fmt.Sprint(alt)})
				}
			}
		}
		parallel(len(sjobs), nw, func(w, ji int) {
			j := sjobs[ji]
			t, e := cmds[j.ci].Run(instBin, wdirs[w], []string{"VERIF_SCHED_CHOICES=" + j.choices})
			cs := c07Case{Command: cmds[j.ci].Name, Policy: "schedule " + j.choices, Kind: "command-schedule"}
			out := "identical"
			if e != "" {
				out = "ERROR"
				r.Violate(evid.Violation{Signature: "schedule-dependent-failure | " + cmds[j.ci].Name, What: fmt.Sprintf("%s: under the goroutine schedule [%s] the command FAILS (%s) while it succeeds under the default schedule", cmds[j.ci].Name, j.choices, e), Case: cs})
			} else if fd := bases[j.ci].t.firstDifference(t); fd != "" {
				out = "DIFFERS"
				r.Violate(evid.Violation{Signature: "schedule-dependent-output | " + cmds[j.ci].Name, What: fmt.Sprintf("%s: the output depends on the order in which the goroutines the command starts are scheduled: schedule [%s] changes %s", cmds[j.ci].Name, j.choices, fd), Case: cs})
			}
			r.CaseKeyed(fmt.Sprintf("cmdsched|%s|%s", cmds[j.ci].Name, j.choices), map[string]string{"command": cmds[j.ci].Name, "schedule": j.choices}, true, out)
			schedRuns++
		})
		r.Extra["go_statements_instrumented"] = goSites
		r.Extra["go_statements_left_alone"] = ires.GoSkipped
		r.Extra["commands_with_goroutine_scheduling_decisions"] = withDecisions
		r.Extra["command_schedules_explored(one deviation)"] = len(sjobs)
	}

	// ---- one site at a time, every alternative order
	type job struct {
		ci     int
		sites  []int
		policy string
	}
	var jobs []job
	reachedByAll := map[int]bool{}
	for _, st := range ires.Sites {
		all := true
		for i := range cmds {
			if bases[i].err == "" && bases[i].sites[st.ID] == 0 {
				all = false
			}
		}
		reachedByAll[st.ID] = all
	}
	for i := range cmds {
		if bases[i].err != "" {
			r.Note("command %s fails in the canonical run: %s", cmds[i].Name, bases[i].err)
			r.Count("commands_failing_in_canonical_run", 1)
			continue
		}
		if unstable[i] {
			// the canonical artefact is not reproducible: no site can be blamed for a difference
			r.Count("commands_skipped_in_site_exploration(unowned nondeterminism)", 1)
			continue
		}
		var ids []int
		for id := range bases[i].sites {
			ids = append(ids, id)
		}
		sort.Ints(ids)
		for _, id := range ids {
			if reachedByAll[id] && !c07Thorough && !(strings.HasPrefix(cmds[i].Name, "generate server") || strings.HasPrefix(cmds[i].Name, "diff json") || strings.HasPrefix(cmds[i].Name, "generate spec")) {
				continue // start-up sites (init, func maps) executed by every command: three representative commands in the quick tier
			}
			pols := []string{"rev", "rot1", "swap01", "swaplast"}
			if !c07Thorough {
				pols = []string{"rev", "rot1"}
			}
			n := bases[i].sites[id]
			if n == 2 {
				pols = []string{"rev"}
			}
			if tier == "thorough" && n == 3 {
				pols = []string{"perm1", "perm2", "perm3", "perm4", "perm5"}
			}
			for _, p := range pols {
				jobs = append(jobs, job{i, []int{id}, p})
			}
		}
		if tier == "thorough" {
			for x := 0; x < len(ids); x++ {
				for y := x + 1; y < len(ids); y++ {
					jobs = append(jobs, job{i, []int{ids[x], ids[y]}, "rev"})
				}
			}
		}
	}
	r.Extra["commands"] = len(cmds)
	r.Extra["permuted_runs"] = len(jobs)
	reached := map[int]bool{}
	for i := range cmds {
		for id := range bases[i].sites {
			reached[id] = true
		}
	}
	r.Extra["sites_reached_with_2+_keys"] = len(reached)
	var unreached []string
	for _, st := range ires.Sites {
		if !reached[st.ID] {
			unreached = append(unreached, st.Pos)
		}
	}
	r.Extra["sites_never_reached_with_2+_keys"] = unreached
	parallel(len(jobs), nw, func(w, ji int) {
		j := jobs[ji]
		var parts []string
		var poss []string
		for _, id := range j.sites {
			parts = append(parts, fmt.Sprintf("%d:%s", id, j.policy))
			poss = append(poss, siteByID[id].Pos)
		}
		t, e := cmds[j.ci].Run(instBin, wdirs[w], []string{"VERIF_MAPORDER=" + strings.Join(parts, ",")})
		cs := c07Case{Command: cmds[j.ci].Name, Site: strings.Join(poss, " + "), Func: siteByID[j.sites[0]].Func, Policy: j.policy, Kind: "map-order"}
		out := "identical"
		switch {
		case e != "":
			out = "ERROR"
			r.Violate(evid.Violation{Signature: fmt.Sprintf("order-dependent-failure | %s | %s", cmds[j.ci].Name, strings.Join(poss, "+")), What: fmt.Sprintf("%s: with the map at %s iterated in order %q the command FAILS (%s) while it succeeds in canonical order", cmds[j.ci].Name, strings.Join(poss, " + "), j.policy, e), Case: cs})
		default:
			if fd := bases[j.ci].t.firstDifference(t); fd != "" {
				// believe nothing until replayed: the permuted run must reproduce its artefact twice more and
				// the canonical run must reproduce the baseline twice more; otherwise the command is unstable
				stable := true
				for k := 0; k < 2 && stable; k++ {
					t2, e2 := cmds[j.ci].Run(instBin, wdirs[w], []string{"VERIF_MAPORDER=" + strings.Join(parts, ",")})
					if e2 != "" || t.firstDifference(t2) != "" {
						stable = false
					}
					t3, e3 := cmds[j.ci].Run(instBin, wdirs[w], nil)
					if e3 != "" || bases[j.ci].t.firstDifference(t3) != "" {
						stable = false
					}
				}
				if !stable {
					out = "UNSTABLE"
					r.Violate(evid.Violation{Signature: "unowned-nondeterminism | " + cmds[j.ci].Name, What: fmt.Sprintf("%s: repeated runs with identical map orders give different artefacts (%s): nondeterminism the map-order hooks do not own", cmds[j.ci].Name, fd), Case: cs})
					r.CaseKeyed(fmt.Sprintf("order|%s|%s|%s", cmds[j.ci].Name, strings.Join(poss, "+"), j.policy), map[string]string{"command": cmds[j.ci].Name, "site": strings.Join(poss, " + "), "policy": j.policy}, true, out)
					return
				}
				out = "DIFFERS"
				r.Violate(evid.Violation{Signature: fmt.Sprintf("order-dependent-output | %s | %s", cmds[j.ci].Name, strings.Join(poss, "+")), What: fmt.Sprintf("%s: the output depends on the iteration order of the map ranged at %s (func %s): order %q changes %s", cmds[j.ci].Name, strings.Join(poss, " + "), siteByID[j.sites[0]].Func, j.policy, fd), Case: cs})
			}
		}
		r.CaseKeyed(fmt.Sprintf("order|%s|%s|%s", cmds[j.ci].Name, strings.Join(poss, "+"), j.policy), map[string]string{"command": cmds[j.ci].Name, "site": strings.Join(poss, " + "), "policy": j.policy}, true, out)
	})
	if replay == "" && os.Getenv("VERIF_C07_ONLY") == "" {
		runC07Concurrency(r, s, tier)
	}
	_ = json.Marshal
	return r.Finish()
}
