package props

import (
	"fmt"
	"regexp"
	"sort"
	"strings"

	"github.com/go-openapi/spec"
	"github.com/go-openapi/strfmt"
	"github.com/go-openapi/validate"

	"verif/mc/xplore"
)

// The shared schema grammar G (DESIGN.md section 3): leaves with <=k validation keywords, wrapped
// in a chain of <=d contexts.  Everything is enumerated through xplore.Choose.

// Leaf is a primitive schema.
type Leaf struct {
	Schema J
	Desc   string
	Kw     string // keyword class for signatures, e.g. "integer:minimum(excl)"
}

func leafAlphabet(k int) []Leaf {
	var out []Leaf
	add := func(kw string, s J) {
		t, _ := s["type"].(string)
		f, _ := s["format"].(string)
		d := t
		if f != "" {
			d += "/" + f
		}
		var extra []string
		for _, key := range sortedKeys(s) {
			if key != "type" && key != "format" {
				extra = append(extra, fmt.Sprintf("%s=%s", key, mustJSON(s[key])))
			}
		}
		if len(extra) > 0 {
			d += "[" + strings.Join(extra, ",") + "]"
		}
		out = append(out, Leaf{Schema: s, Desc: d, Kw: kw})
	}
	for _, f := range []string{"", "date", "date-time", "uuid", "email", "uri", "byte", "password"} {
		s := J{"type": "string"}
		if f != "" {
			s["format"] = f
		}
		add("string/"+f, s)
	}
	for _, f := range []string{"", "int32", "int64", "uint32", "uint64"} {
		s := J{"type": "integer"}
		if f != "" {
			s["format"] = f
		}
		add("integer/"+f, s)
	}
	for _, f := range []string{"", "float", "double"} {
		s := J{"type": "number"}
		if f != "" {
			s["format"] = f
		}
		add("number/"+f, s)
	}
	add("boolean", J{"type": "boolean"})
	if k < 1 {
		return out
	}
	type kwv struct {
		name string
		kv   J
	}
	strKw := []kwv{{"minLength0", J{"minLength": 0}}, {"minLength1", J{"minLength": 1}}, {"minLength3", J{"minLength": 3}}, {"maxLength0", J{"maxLength": 0}}, {"maxLength2", J{"maxLength": 2}},
		{"pattern", J{"pattern": "^a+$"}}, {"enum", J{"enum": A{"aa", "b"}}}, {"enum-special", J{"enum": A{"<=", "a&b", "q\"x", "b\\s"}}}}
	numKw := func(fl bool) []kwv {
		one, five := interface{}(1), interface{}(5)
		if fl {
			one, five = 1.5, 5.5
		}
		return []kwv{
			{"minimum-1", J{"minimum": -1}}, {"minimum0", J{"minimum": 0}}, {"minimum1", J{"minimum": one}},
			{"minimum0x", J{"minimum": 0, "exclusiveMinimum": true}}, {"minimum1x", J{"minimum": one, "exclusiveMinimum": true}},
			{"maximum0", J{"maximum": 0}}, {"maximum5", J{"maximum": five}},
			{"maximum0x", J{"maximum": 0, "exclusiveMaximum": true}}, {"maximum5x", J{"maximum": five, "exclusiveMaximum": true}},
			{"multipleOf", J{"multipleOf": 2}}, {"enum", J{"enum": A{1, 4}}},
		}
	}
	// unusual bound values (numbers only): a fraction that is not exactly representable, a negative fraction, a
	// magnitude beyond 2^63
	oddNum := []kwv{{"minimum0.1", J{"minimum": 0.1}}, {"maximum-273.15", J{"maximum": -273.15}}, {"maximum1e21", J{"maximum": 1e21}}, {"minimum0.1x", J{"minimum": 0.1, "exclusiveMinimum": true}}}
	single := func(base J, kws []kwv, prefix string) {
		for _, kw := range kws {
			add(prefix+":"+kw.name, merge(base, kw.kv))
		}
	}
	single(J{"type": "string"}, strKw, "string")
	single(J{"type": "integer"}, numKw(false), "integer")
	single(J{"type": "integer", "format": "int32"}, numKw(false)[:6], "integer/int32")
	single(J{"type": "integer", "format": "uint32"}, numKw(false)[5:9], "integer/uint32")
	single(J{"type": "integer", "format": "uint64"}, numKw(false)[1:4], "integer/uint64")
	single(J{"type": "integer", "format": "int64"}, numKw(false)[6:10], "integer/int64")
	single(J{"type": "number"}, numKw(true), "number")
	single(J{"type": "number"}, oddNum, "number")
	single(J{"type": "number", "format": "float"}, oddNum[:2], "number/float")
	single(J{"type": "number", "format": "float"}, numKw(true)[2:7], "number/float")
	add("boolean:enum", J{"type": "boolean", "enum": A{true}})
	add("string/date:enum", J{"type": "string", "format": "date", "enum": A{"2020-01-02"}})
	add("string/uuid:minLength", J{"type": "string", "format": "uuid", "minLength": 1})
	if k < 2 {
		return out
	}
	pairs := func(base J, kws []kwv, prefix string) {
		for i := range kws {
			for j := i + 1; j < len(kws); j++ {
				m := merge(merge(base, kws[i].kv), kws[j].kv)
				if len(m) < len(base)+len(kws[i].kv)+len(kws[j].kv) {
					continue // same keyword twice
				}
				add(prefix+":"+kws[i].name+"+"+kws[j].name, m)
			}
		}
	}
	pairs(J{"type": "string"}, strKw, "string")
	pairs(J{"type": "integer"}, numKw(false), "integer")
	pairs(J{"type": "number"}, numKw(true), "number")
	return out
}

// reducedLeaves is the small representative set used below depth 1.
func reducedLeaves() []Leaf {
	all := leafAlphabet(1)
	want := map[string]bool{"string/": true, "string:minLength1": true, "string/date": true, "integer/": true, "integer:minimum1": true, "integer:maximum0": true, "number:minimum0x": true, "boolean": true, "string:enum": true}
	var out []Leaf
	for _, l := range all {
		if want[l.Kw] {
			out = append(out, l)
		}
	}
	return out
}

// Ctx wraps an inner schema into an outer one.
type SchemaCtx struct {
	Name string
	Wrap func(inner J, b *defBuilder) J
	// NeedsValue: the wrapper wants a valid value of the inner schema (for defaults)
}

type defBuilder struct {
	name string
	aux  map[string]J
	n    int
}

func (b *defBuilder) addAux(s J) string {
	b.n++
	n := fmt.Sprintf("%sAux%d", b.name, b.n)
	b.aux[n] = s
	return n
}

func isObjectish(s J) bool {
	if s["type"] == "object" {
		return true
	}
	_, a := s["allOf"]
	_, p := s["properties"]
	return a || p
}

func schemaContexts() []SchemaCtx {
	return []SchemaCtx{
		{"reqprop", func(in J, b *defBuilder) J {
			return J{"type": "object", "required": A{"p"}, "properties": J{"p": in, "q": J{"type": "string"}}}
		}},
		{"optprop", func(in J, b *defBuilder) J { return J{"type": "object", "properties": J{"p": in}} }},
		{"array", func(in J, b *defBuilder) J { return J{"type": "array", "items": in} }},
		{"map", func(in J, b *defBuilder) J { return J{"type": "object", "additionalProperties": in} }},
		{"allOf", func(in J, b *defBuilder) J {
			return J{"allOf": A{J{"type": "object", "properties": J{"p": in}}, J{"type": "object", "required": A{"z"}, "properties": J{"z": J{"type": "string"}}}}}
		}},
		// property counts on an object that declares properties and says nothing about additionalProperties
		{"props+minProps", func(in J, b *defBuilder) J {
			return J{"type": "object", "minProperties": 2, "properties": J{"p": in, "q": J{"type": "string"}}}
		}},
		{"props+maxProps", func(in J, b *defBuilder) J {
			return J{"type": "object", "maxProperties": 1, "properties": J{"p": in, "q": J{"type": "string"}}}
		}},
		{"allOf+req", func(in J, b *defBuilder) J { // the member property is required in its inline allOf member
			return J{"allOf": A{J{"type": "object", "required": A{"p"}, "properties": J{"p": in}}, J{"type": "object", "properties": J{"z": J{"type": "string"}}}}}
		}},
		{"refprop", func(in J, b *defBuilder) J {
			return J{"type": "object", "required": A{"p"}, "properties": J{"p": J{"$ref": "#/definitions/" + b.addAux(in)}}}
		}},
		{"optrefprop", func(in J, b *defBuilder) J {
			return J{"type": "object", "properties": J{"p": J{"$ref": "#/definitions/" + b.addAux(in)}}}
		}},
		{"ref", func(in J, b *defBuilder) J { return J{"$ref": "#/definitions/" + b.addAux(in)} }},
		{"ref2prop", func(in J, b *defBuilder) J { // property -> $ref -> $ref -> inner
			a2 := b.addAux(in)
			a1 := b.addAux(J{"$ref": "#/definitions/" + a2})
			return J{"type": "object", "required": A{"p"}, "properties": J{"p": J{"$ref": "#/definitions/" + a1}}}
		}},
		{"ref2objprop", func(in J, b *defBuilder) J { // property -> $ref -> $ref -> object{required p: inner}
			a2 := b.addAux(J{"type": "object", "required": A{"p"}, "properties": J{"p": in}})
			a1 := b.addAux(J{"$ref": "#/definitions/" + a2})
			return J{"type": "object", "properties": J{"o": J{"$ref": "#/definitions/" + a1}}}
		}},
		{"reqprop+readOnly", func(in J, b *defBuilder) J {
			return J{"type": "object", "required": A{"p"}, "properties": J{"p": merge(in, J{"readOnly": true})}}
		}},
		{"reqprop+default", func(in J, b *defBuilder) J {
			v, ok := validValue(in, b)
			if !ok {
				return nil
			}
			return J{"type": "object", "required": A{"p"}, "properties": J{"p": merge(in, J{"default": v})}}
		}},
		{"optprop+default", func(in J, b *defBuilder) J {
			v, ok := validValue(in, b)
			if !ok {
				return nil
			}
			return J{"type": "object", "properties": J{"p": merge(in, J{"default": v})}}
		}},
		{"reqprop+goname", func(in J, b *defBuilder) J { // the Go name differs from the JSON name
			return J{"type": "object", "required": A{"p"}, "properties": J{"p": merge(in, J{"x-go-name": "RenamedField"}), "q": J{"type": "string", "x-go-name": "P"}}}
		}},
		{"reqprop+nonnullable", func(in J, b *defBuilder) J {
			return J{"type": "object", "required": A{"p"}, "properties": J{"p": merge(in, J{"x-nullable": false})}}
		}},
		{"optprop+nullable", func(in J, b *defBuilder) J {
			return J{"type": "object", "properties": J{"p": merge(in, J{"x-nullable": true})}}
		}},
		{"optprop+omitempty-false", func(in J, b *defBuilder) J {
			return J{"type": "object", "properties": J{"p": merge(in, J{"x-omitempty": false})}}
		}},
		{"array+minItems1", func(in J, b *defBuilder) J { return J{"type": "array", "items": in, "minItems": 1} }},
		{"array+maxItems2", func(in J, b *defBuilder) J { return J{"type": "array", "items": in, "maxItems": 2} }},
		{"array+uniqueItems", func(in J, b *defBuilder) J { return J{"type": "array", "items": in, "uniqueItems": true} }},
		{"map+minProperties1", func(in J, b *defBuilder) J {
			return J{"type": "object", "additionalProperties": in, "minProperties": 1}
		}},
		{"map+maxProperties1", func(in J, b *defBuilder) J {
			return J{"type": "object", "additionalProperties": in, "maxProperties": 1}
		}},
		{"props+addl", func(in J, b *defBuilder) J {
			return J{"type": "object", "properties": J{"q": J{"type": "string"}}, "additionalProperties": in}
		}},
		{"props+addl-false", func(in J, b *defBuilder) J {
			return J{"type": "object", "properties": J{"p": in}, "additionalProperties": false}
		}},
		{"props+addl-true", func(in J, b *defBuilder) J {
			return J{"type": "object", "required": A{"p"}, "properties": J{"p": in}, "additionalProperties": true}
		}},
		{"arrayprop", func(in J, b *defBuilder) J {
			return J{"type": "object", "required": A{"l"}, "properties": J{"l": J{"type": "array", "items": in, "maxItems": 2}}}
		}},
		{"optarrayprop+minItems", func(in J, b *defBuilder) J {
			return J{"type": "object", "properties": J{"l": J{"type": "array", "items": in, "minItems": 1}}}
		}},
		{"mapprop", func(in J, b *defBuilder) J {
			return J{"type": "object", "properties": J{"m": J{"type": "object", "additionalProperties": in}}}
		}},
	}
}

// validValue finds a value the reference validator accepts for schema s (against the aux defs so far).
func validValue(s J, b *defBuilder) (interface{}, bool) {
	root := J{"definitions": J{}}
	if b != nil {
		for k, v := range b.aux {
			at(root, "definitions")[k] = v
		}
	}
	for _, c := range candidateValues(s, root, 0) {
		if refValid(s, root, c) {
			return c, true
		}
	}
	return nil, false
}

// refValid is the reference verdict: go-openapi/validate on the input schema, rooted at the input document.
func refValid(schema J, root J, data interface{}) bool {
	// defaults are annotations in JSON schema: go-openapi/validate fills them in *before* checking
	// `required`, which would make {} valid for a required property with a default. The oracle is the
	// JSON-schema verdict, so defaults are stripped from the schema and the root first.
	schema = stripKey(schema, "default").(J)
	root = stripKey(root, "default").(J)
	var sch spec.Schema
	if err := sch.UnmarshalJSON(mustJSON(schema)); err != nil {
		panic(err)
	}
	v := validate.NewSchemaValidator(&sch, normalizeJSON(root), "", strfmt.Default)
	return v.Validate(normalizeJSON(data)).IsValid()
}

func stripKey(v interface{}, key string) interface{} {
	switch t := v.(type) {
	case map[string]interface{}:
		o := make(map[string]interface{}, len(t))
		for k, x := range t {
			if k == key {
				if _, isSchema := t["type"]; isSchema {
					continue
				}
				if _, isRef := t["$ref"]; isRef {
					continue
				}
			}
			o[k] = stripKey(x, key)
		}
		return o
	case []interface{}:
		o := make([]interface{}, len(t))
		for i, x := range t {
			o[i] = stripKey(x, key)
		}
		return o
	}
	return v
}

// DefCase is one definition under test.
type DefCase struct {
	Name   string       `json:"name"`
	Schema J            `json:"schema"`
	Aux    map[string]J `json:"aux,omitempty"`
	Desc   string       `json:"desc"`
	Kw     string       `json:"kw"`
	Chain  string       `json:"chain"`
	Exact  bool         `json:"exact,omitempty"` // special family: the round trip must be exact
	Base   bool         `json:"base,omitempty"`  // discriminated base type: decoded through its Unmarshal<T> factory
}

// Doc returns a minimal document containing the definition.
func (d DefCase) Defs() J {
	o := J{d.Name: d.Schema}
	for k, v := range d.Aux {
		o[k] = v
	}
	return o
}

// genDef enumerates: leaf (rich alphabet at depth<=1, reduced below) x context chain of length <= depth.
func genDef(c *xplore.Ctx, k, depth int) DefCase {
	b := &defBuilder{aux: map[string]J{}}
	ctxs := schemaContexts()
	nctx := c.Choose(depth+1, "chain-length")
	var leaves []Leaf
	if nctx <= 1 {
		leaves = leafAlphabet(k)
	} else {
		leaves = reducedLeaves()
	}
	leaf := leaves[c.Choose(len(leaves), "leaf")]
	s := cloneJ(leaf.Schema)
	var chain []string
	// name is filled by the caller; aux names must be unique per definition, so use a placeholder
	b.name = "@@"
	for i := 0; i < nctx; i++ {
		ct := ctxs[c.Choose(len(ctxs), fmt.Sprintf("ctx%d", i))]
		if i > 0 {
			// property modifiers only make sense directly around a leaf or a ref; skip stacked duplicates
			if strings.Contains(ct.Name, "+default") {
				c.Skip()
			}
		}
		ns := ct.Wrap(s, b)
		if ns == nil {
			c.Skip()
		}
		s = ns
		chain = append([]string{ct.Name}, chain...)
	}
	if nctx == 0 {
		chain = []string{"top"}
	}
	return DefCase{Schema: s, Aux: b.aux, Desc: strings.Join(chain, ">") + ">" + leaf.Desc, Kw: leaf.Kw, Chain: strings.Join(chain, ">")}
}

// nameDefs assigns harness-chosen names and rewrites the aux placeholders.
func nameDefs(defs []DefCase, prefix string) []DefCase {
	out := make([]DefCase, len(defs))
	for i, d := range defs {
		name := fmt.Sprintf("%s%04d", prefix, i)
		raw := string(mustJSON(J{"s": d.Schema, "a": d.Aux}))
		raw = strings.ReplaceAll(raw, "@@Aux", name+"Aux")
		var back struct {
			S J            `json:"s"`
			A map[string]J `json:"a"`
		}
		must(jsonUnmarshalNumber([]byte(raw), &back))
		out[i] = DefCase{Name: name, Schema: back.S, Aux: back.A, Desc: d.Desc, Kw: d.Kw, Chain: d.Chain}
	}
	return out
}

// EnumerateDefs returns all definitions of the grammar within (k, depth).
func EnumerateDefs(k, depth int, prefix string) ([]DefCase, xplore.Stats) {
	defs, st := xplore.Collect(xplore.Options{MaxDeviations: -1}, func(c *xplore.Ctx) DefCase { return genDef(c, k, depth) })
	return nameDefs(defs, prefix), st
}

// ---------------------------------------------------------------------------------------------
// Instances

func leafCandidates(s J) []interface{} {
	t, _ := s["type"].(string)
	f, _ := s["format"].(string)
	var out []interface{}
	switch t {
	case "string":
		switch f {
		case "date":
			out = A{"2020-01-02", "2020-13-40", "", "x"}
		case "date-time":
			out = A{"2020-01-02T03:04:05Z", "2020-01-02", "", "x"}
		case "uuid":
			out = A{"0a1b2c3d-0000-4000-8000-00000000abcd", "not-a-uuid", ""}
		case "email":
			out = A{"a@b.co", "nope", ""}
		case "uri":
			out = A{"http://a.b/c", "::", ""}
		case "byte":
			out = A{"YWJj", "!!!", ""}
		default:
			out = A{"aa", "", "a", "aaa", "aaaa", "b", "éé", "ab"}
		}
		out = append(out, 1)
	case "integer":
		out = A{1, 0, -1, -2, 2, 4, 5, 6, 1.5, "x"}
		if strings.HasPrefix(f, "uint") {
			// negative values are outside the alphabet: the reference validator does not enforce the
			// range of integer formats, the generated Go type does (documented alphabet restriction)
			out = A{1, 0, 2, 4, 5, 6, 1.5, "x"}
		}
	case "number":
		out = A{1.5, 0, -1, -1.5, 0.5, 1, 2, 4, 5, 5.5, 6, "x"}
	case "boolean":
		out = A{true, false, "x"}
	}
	if en, ok := s["enum"].([]interface{}); ok {
		out = append(append(A{}, en...), out...)
	}
	if len(out) == 0 {
		// untyped schema: any JSON value
		out = A{"s", 1, true, J{"k": 1}, A{1, "x"}}
	}
	return out
}

func resolveRef(s J, root J) J {
	for i := 0; i < 5; i++ {
		r, ok := s["$ref"].(string)
		if !ok {
			return s
		}
		name := strings.TrimPrefix(r, "#/definitions/")
		t, ok := at(root, "definitions")[name].(J)
		if !ok {
			return s
		}
		s = t
	}
	return s
}

// candidateValues returns values for schema s with at most one deviation from a base value; the
// first element is the base.  The reference validator, not this function, decides validity.
func candidateValues(s J, root J, depth int) []interface{} {
	s = resolveRef(s, root)
	if depth > 6 {
		return A{nil}
	}
	if all, ok := s["allOf"].([]interface{}); ok {
		// merge member objects: base = union of bases; alternatives deviate in one member
		var memberVals [][]interface{}
		for _, m := range all {
			memberVals = append(memberVals, candidateValues(m.(J), root, depth+1))
		}
		mergeObjs := func(pick []int) interface{} {
			o := J{}
			for i, mv := range memberVals {
				v := mv[pick[i]]
				mo, ok := v.(J)
				if !ok {
					return v // a non-object deviation: whole value is that
				}
				for k, x := range mo {
					o[k] = x
				}
			}
			return o
		}
		pick := make([]int, len(memberVals))
		out := A{mergeObjs(pick)}
		for i, mv := range memberVals {
			for j := 1; j < len(mv); j++ {
				p := make([]int, len(memberVals))
				p[i] = j
				out = append(out, mergeObjs(p))
			}
		}
		return out
	}
	t, _ := s["type"].(string)
	switch {
	case t == "array":
		items, _ := s["items"].(J)
		if items == nil {
			return A{A{}, A{1}, "x"}
		}
		iv := candidateValues(items, root, depth+1)
		base := iv[0]
		second := base
		for _, v := range iv[1:] {
			if refValid(items, root, v) && !jsonEqual(v, base) {
				second = v
				break
			}
		}
		n := 1
		if mi, ok := s["minItems"]; ok {
			if f, ok := toFloat(mi); ok && int(f) > n {
				n = int(f)
			}
		}
		mk := func(vals ...interface{}) interface{} { return append(A{}, vals...) }
		out := A{}
		if n == 1 {
			out = append(out, mk(base))
		} else {
			out = append(out, mk(base, second))
		}
		out = append(out, mk(), mk(base), mk(base, second), mk(base, base), mk(base, second, base), mk(second, base, second))
		for _, v := range iv[1:] {
			out = append(out, mk(v), mk(base, v))
		}
		out = append(out, "x", J{})
		return out
	case t == "object" || s["properties"] != nil || s["additionalProperties"] != nil:
		props, _ := s["properties"].(J)
		base := J{}
		names := sortedKeys(props)
		pv := map[string][]interface{}{}
		for _, n := range names {
			pv[n] = candidateValues(props[n].(J), root, depth+1)
			base[n] = pv[n][0]
		}
		var addl J
		addlPresent := false
		switch ap := s["additionalProperties"].(type) {
		case map[string]interface{}:
			addl, addlPresent = ap, true
		case bool:
			addlPresent = ap
		}
		var av []interface{}
		if addl != nil {
			av = candidateValues(addl, root, depth+1)
			base["k1"] = av[0]
		} else if addlPresent && len(names) == 0 {
			base["k1"] = "v"
		}
		out := A{cloneJ(base)}
		for _, n := range names {
			for _, v := range pv[n][1:] {
				o := cloneJ(base)
				o[n] = v
				out = append(out, o)
			}
			o := cloneJ(base)
			delete(o, n)
			out = append(out, o)
		}
		if addl != nil {
			for _, v := range av[1:] {
				o := cloneJ(base)
				o["k1"] = v
				out = append(out, o)
			}
			o := cloneJ(base)
			delete(o, "k1")
			out = append(out, o)
			o2 := cloneJ(base)
			o2["k2"] = av[0]
			out = append(out, o2)
			// two entries, the second one deviating (entries must not influence each other)
			for _, v := range av[1:] {
				o := cloneJ(base)
				o["k2"] = v
				out = append(out, o)
			}
		}
		extra := cloneJ(base)
		extra["undeclared"] = "u"
		out = append(out, extra, J{}, "x", A{})
		return out
	default:
		return leafCandidates(s)
	}
}

func toFloat(v interface{}) (float64, bool) {
	switch t := v.(type) {
	case int:
		return float64(t), true
	case int64:
		return float64(t), true
	case float64:
		return t, true
	}
	return 0, false
}

// Instances returns the de-duplicated candidate documents of a definition.
func Instances(d DefCase) []interface{} {
	root := J{"definitions": d.Defs()}
	vals := candidateValues(d.Schema, root, 0)
	seen := map[string]bool{}
	var out []interface{}
	for _, v := range vals {
		k := string(mustJSON(v))
		if !seen[k] {
			seen[k] = true
			out = append(out, normalizeJSON(v))
		}
	}
	return out
}

func sortStrings(s []string) []string { sort.Strings(s); return s }

var rxDigits = regexp.MustCompile(`[0-9]+`)

func refValidKeepDefaults(schema J, root J, data interface{}) bool {
	return refValid(schema, root, data)
}

// validationErrors returns the reference validator's messages (first three).
func validationErrors(schema J, root J, data interface{}) string {
	schema = stripKey(schema, "default").(J)
	root = stripKey(root, "default").(J)
	var sch spec.Schema
	if err := sch.UnmarshalJSON(mustJSON(schema)); err != nil {
		return err.Error()
	}
	v := validate.NewSchemaValidator(&sch, normalizeJSON(root), "", strfmt.Default)
	res := v.Validate(normalizeJSON(data))
	var msgs []string
	for i, e := range res.Errors {
		if i >= 3 {
			break
		}
		msgs = append(msgs, e.Error())
	}
	return strings.Join(msgs, "; ")
}

// EnumerateStackDefs: "container stacks" - every chain of length minLen..maxLen over the container and
// property contexts {array, map, arrayprop, mapprop, props+addl, reqprop, optprop, ref} around two validated
// leaves. These are the depth-3 shapes (map of arrays of objects, objects in arrays in additional properties
// ...) that the general grammar only reaches at depth 2.
func EnumerateStackDefs(prefix string, minLen, maxLen int) []DefCase {
	names := []string{"array", "map", "arrayprop", "mapprop", "props+addl", "reqprop", "optprop", "ref", "allOf+req"}
	byName := map[string]SchemaCtx{}
	for _, c := range schemaContexts() {
		byName[c.Name] = c
	}
	var leaves []Leaf
	for _, l := range reducedLeaves() {
		if l.Kw == "integer:minimum1" || l.Kw == "string:minLength1" {
			leaves = append(leaves, l)
		}
	}
	var out []DefCase
	var rec func(chain []string)
	rec = func(chain []string) {
		if len(chain) >= minLen {
			for _, leaf := range leaves {
				b := &defBuilder{aux: map[string]J{}, name: "@@"}
				s := cloneJ(leaf.Schema)
				ok := true
				for i := len(chain) - 1; i >= 0; i-- {
					s = byName[chain[i]].Wrap(s, b)
					if s == nil {
						ok = false
						break
					}
				}
				if ok {
					ch := strings.Join(chain, ">")
					out = append(out, DefCase{Schema: s, Aux: b.aux, Desc: ch + ">" + leaf.Desc, Kw: leaf.Kw, Chain: ch})
				}
			}
		}
		if len(chain) == maxLen {
			return
		}
		for _, n := range names {
			if len(chain) > 0 && n == "ref" && chain[len(chain)-1] == "ref" {
				continue // ref>ref is the two-hop alias, covered by ref2prop
			}
			rec(append(append([]string{}, chain...), n))
		}
	}
	rec(nil)
	return nameDefs(out, prefix)
}

// DeepRefDefs: properties (optional / required) holding two nested containers (array / map) of $ref'd
// objects - five levels deep, enumerated explicitly because the general grammar stops at depth 2-3.
func DeepRefDefs(prefix string) []DefCase {
	byName := map[string]SchemaCtx{}
	for _, c := range schemaContexts() {
		byName[c.Name] = c
	}
	var leaf Leaf
	for _, l := range reducedLeaves() {
		if l.Kw == "string:minLength1" {
			leaf = l
		}
	}
	var out []DefCase
	for _, prop := range []string{"optprop", "reqprop"} {
		for _, c1 := range []string{"array", "map"} {
			for _, c2 := range []string{"array", "map"} {
				chain := []string{prop, c1, c2, "ref", "reqprop"}
				b := &defBuilder{aux: map[string]J{}, name: "@@"}
				s := cloneJ(leaf.Schema)
				for i := len(chain) - 1; i >= 0; i-- {
					s = byName[chain[i]].Wrap(s, b)
				}
				ch := strings.Join(chain, ">")
				out = append(out, DefCase{Schema: s, Aux: b.aux, Desc: ch + ">" + leaf.Desc, Kw: leaf.Kw, Chain: ch})
			}
		}
	}
	return nameDefs(out, prefix)
}
