package props

import (
	"fmt"
	"os"
	"path/filepath"
	"sort"
	"strings"
)

// Inputs written to reach the range-over-map sites the other C07 commands reach with fewer than two keys
// (the evidence lists the sites never reached with >=2 keys): a diff pair in which every compared map
// (responses, headers, security definitions, extensions at every level, allOf property maps, enum sets)
// holds several added, several deleted and several changed entries at once; a generator document with
// several external imports, response examples and inline schemas per operation; an annotated Go program
// with several extensions per parameter / schema, same-named types from two packages and an --input
// document with several paths.

// mutateExtensions edits every group of x-* keys found anywhere in the document: one value changed,
// one key removed, two keys added.
func mutateExtensions(v interface{}) {
	switch t := v.(type) {
	case map[string]interface{}:
		var xs []string
		for k := range t {
			if strings.HasPrefix(k, "x-") && k != "x-go-type" {
				xs = append(xs, k)
			}
		}
		sort.Strings(xs)
		if len(xs) >= 3 {
			t[xs[0]] = "changed"
			t[xs[1]] = A{"changed", "too"}
			delete(t, xs[2])
			t[xs[0]+"-new1"] = 1
			t[xs[0]+"-new2"] = J{"k": "v"}
		}
		for k, x := range t {
			if !strings.HasPrefix(k, "x-") {
				mutateExtensions(x)
			}
		}
	case []interface{}:
		for _, x := range t {
			mutateExtensions(x)
		}
	}
}

func withExt(o J, prefix string) J {
	for i := 1; i <= 4; i++ {
		o[fmt.Sprintf("x-%s%d", prefix, i)] = i
	}
	return o
}

func c07DiffCoverPair() (J, J) {
	hdr := func(t string, p string) J { return withExt(J{"type": t}, p) }
	mk := func() J {
		d := withExt(J{"swagger": "2.0", "info": withExt(J{"title": "cover", "version": "1"}, "i"), "consumes": A{"application/json"}, "produces": A{"application/json"}, "paths": J{}, "definitions": J{}}, "r")
		d["tags"] = A{withExt(J{"name": "t1"}, "t"), withExt(J{"name": "t2", "description": "two"}, "u"), J{"name": "t3"}}
		d["securityDefinitions"] = J{"k1": withExt(J{"type": "apiKey", "in": "header", "name": "X-1"}, "s"), "k2": withExt(J{"type": "apiKey", "in": "query", "name": "k"}, "q"), "b": withExt(J{"type": "basic"}, "b"), "b2": J{"type": "basic"}}
		at(d, "definitions")["Base1"] = J{"type": "object", "required": A{"p1", "p2"}, "properties": J{"p1": J{"type": "string"}, "p2": J{"type": "integer"}, "p3": J{"type": "boolean"}, "p4": J{"type": "number"}}}
		at(d, "definitions")["Base2"] = J{"type": "object", "properties": J{"r1": J{"type": "string", "enum": A{"a", "b", "c", "d"}}, "r2": J{"type": "integer"}, "r3": J{"type": "string"}}}
		at(d, "definitions")["Comp"] = withExt(J{"allOf": A{J{"$ref": "#/definitions/Base1"}, J{"$ref": "#/definitions/Base2"}, J{"type": "object", "properties": J{"own1": J{"type": "string"}, "own2": J{"type": "string"}, "own3": J{"type": "string"}}}}}, "c")
		at(d, "definitions")["Obj"] = withExt(J{"type": "object", "required": A{"a", "b"}, "properties": J{"a": withExt(J{"type": "string"}, "pa"), "b": J{"type": "integer"}, "c": J{"type": "boolean"}, "d": J{"type": "string", "enum": A{"w", "x", "y", "z"}}, "n": J{"$ref": "#/definitions/Comp"}}}, "d")
		resp := func(desc string, p string) J {
			return withExt(J{"description": desc, "schema": J{"$ref": "#/definitions/Obj"}, "headers": J{"X-A": hdr("integer", p+"a"), "X-B": hdr("string", p+"b"), "X-C": hdr("boolean", p+"c"), "X-D": hdr("string", p+"d")}}, p)
		}
		pi := withExt(J{}, "p")
		pi["get"] = withExt(J{"operationId": "getA", "tags": A{"t1", "t2", "t3"}, "consumes": A{"application/json", "application/xml", "text/plain"}, "produces": A{"application/json", "text/csv", "application/xml"},
			"schemes": A{"http", "https", "ws"},
			"parameters": A{
				withExt(J{"in": "query", "name": "q1", "type": "string", "enum": A{"a", "b", "c", "d"}}, "qa"),
				withExt(J{"in": "header", "name": "H1", "type": "integer"}, "ha"),
				withExt(J{"in": "query", "name": "q2", "type": "array", "items": J{"type": "string", "enum": A{"m", "n", "o", "p"}}}, "qb"),
				J{"in": "query", "name": "q3", "type": "boolean"}},
			"responses": withExt(J{"200": resp("ok", "ra"), "201": resp("created", "rb"), "404": resp("nf", "rc"), "410": resp("gone", "rd"), "default": resp("d", "re")}, "rs")}, "o")
		pi["post"] = withExt(J{"operationId": "postA", "tags": A{"t2"}, "parameters": A{withExt(J{"in": "body", "name": "body", "required": true, "schema": J{"$ref": "#/definitions/Comp"}}, "bp")},
			"responses": J{"200": resp("ok", "pa"), "400": resp("bad", "pb"), "409": resp("conflict", "pc")}}, "po")
		at(d, "paths")["/a"] = pi
		pj := withExt(J{}, "pp")
		pj["get"] = withExt(J{"operationId": "getB", "responses": J{"200": resp("ok", "ba"), "404": resp("nf", "bb")}}, "ob")
		pj["delete"] = J{"operationId": "delB", "responses": J{"204": J{"description": "none"}, "403": J{"description": "no"}}}
		at(d, "paths")["/b"] = pj
		return d
	}
	v1, v2 := mk(), mk()
	mutateExtensions(v2)
	// responses: two removed, two added, per operation; headers: one changed, two removed, two added
	for _, pm := range [][2]string{{"/a", "get"}, {"/a", "post"}, {"/b", "get"}} {
		rs := at(v2, "paths", pm[0], pm[1], "responses")
		var codes []string
		for c := range rs {
			if !strings.HasPrefix(c, "x-") && c != "200" && c != "default" {
				codes = append(codes, c)
			}
		}
		sort.Strings(codes)
		for i, c := range codes {
			if i < 2 {
				delete(rs, c)
			}
		}
		rs["422"] = J{"description": "new", "headers": J{"X-N1": J{"type": "string"}, "X-N2": J{"type": "integer"}}}
		rs["500"] = J{"description": "new too", "schema": J{"$ref": "#/definitions/Obj"}}
		for c, r := range rs {
			rj, ok := r.(J)
			if !ok || strings.HasPrefix(c, "x-") {
				continue
			}
			if h, ok := rj["headers"].(J); ok && h["X-A"] != nil {
				h["X-A"].(J)["type"] = "string"
				delete(h, "X-C")
				delete(h, "X-D")
				h["X-E"] = J{"type": "string"}
				h["X-F"] = J{"type": "number"}
			}
			rj["description"] = fmt.Sprint(rj["description"]) + " (edited)"
		}
	}
	sd := at(v2, "securityDefinitions")
	delete(sd, "b")
	delete(sd, "b2")
	sd["k3"] = J{"type": "apiKey", "in": "header", "name": "X-3"}
	sd["k4"] = J{"type": "basic"}
	get := at(v2, "paths", "/a", "get")
	get["tags"] = A{"t1", "t4", "t5"}
	get["consumes"] = A{"application/json", "application/yaml", "text/html"}
	get["produces"] = A{"application/json", "image/png", "text/html"}
	get["schemes"] = A{"https", "wss", "http2"}
	ps := get["parameters"].(A)
	ps[0].(J)["enum"] = A{"a", "c", "e", "f"}
	ps[2].(J)["items"].(J)["enum"] = A{"m", "o", "q", "r"}
	get["parameters"] = A{ps[0], ps[2], J{"in": "query", "name": "q4", "type": "string"}, J{"in": "header", "name": "H2", "type": "string", "required": true}}
	b1 := at(v2, "definitions", "Base1")
	b1["required"] = A{"p1", "p5"}
	b1p := at(b1, "properties")
	b1p["p1"] = J{"type": "integer"}
	delete(b1p, "p3")
	delete(b1p, "p4")
	b1p["p5"] = J{"type": "string"}
	b1p["p6"] = J{"type": "string"}
	at(v2, "definitions", "Base2", "properties", "r1")["enum"] = A{"a", "c", "e", "f"}
	own := at(v2, "definitions", "Comp")["allOf"].(A)[2].(J)["properties"].(J)
	delete(own, "own2")
	delete(own, "own3")
	own["own4"] = J{"type": "integer"}
	own["own5"] = J{"type": "integer"}
	op := at(v2, "definitions", "Obj", "properties")
	delete(op, "c")
	op["b"] = J{"type": "string"}
	op["e"] = J{"type": "string"}
	op["f"] = J{"type": "string"}
	at(op, "d")["enum"] = A{"w", "y", "q", "r"}
	at(v2, "definitions", "Obj")["required"] = A{"a", "e", "f"}
	v2["tags"] = A{v2["tags"].(A)[0], v2["tags"].(A)[1], J{"name": "t4"}, J{"name": "t5"}}
	return v1, v2
}

// c07GenCoverSpec: a generator document with several external imports per model, several response examples
// and several inline (extra) schemas per operation.
func c07GenCoverSpec() J {
	d := richSpec()
	xt := func(t, pkg, alias string) J {
		o := J{"type": t, "import": J{"package": pkg}}
		if alias != "" {
			o["import"].(J)["alias"] = alias
		}
		return o
	}
	defs := at(d, "definitions")
	defs["ExtTime"] = J{"type": "string", "x-go-type": xt("Duration", "time", "")}
	defs["ExtRaw"] = J{"x-go-type": J{"type": "RawMessage", "import": J{"package": "encoding/json"}, "hints": J{"kind": "interface"}}}
	defs["ExtURL"] = J{"type": "object", "x-go-type": J{"type": "Rat", "import": J{"package": "math/big"}, "hints": J{"noValidation": true}}}
	defs["Importer"] = J{"type": "object", "properties": J{
		"t": J{"$ref": "#/definitions/ExtTime"}, "r": J{"$ref": "#/definitions/ExtRaw"}, "u": J{"$ref": "#/definitions/ExtURL"},
		"l": J{"type": "array", "items": J{"$ref": "#/definitions/ExtURL"}},
		"m": J{"type": "object", "additionalProperties": J{"$ref": "#/definitions/ExtTime"}},
		"i": J{"type": "object", "x-go-type": J{"type": "Int", "import": J{"package": "math/big", "alias": "bigint"}, "hints": J{"noValidation": true}}},
	}}
	defs["Importer2"] = J{"allOf": A{J{"$ref": "#/definitions/Importer"}, J{"type": "object", "properties": J{"z": J{"$ref": "#/definitions/ExtURL"}, "y": J{"$ref": "#/definitions/ExtTime"}}}}}
	inline := func(n int) J {
		p := J{}
		for i := 0; i < n; i++ {
			p[fmt.Sprintf("in%d", i)] = J{"type": "object", "properties": J{"leaf": J{"type": "string"}, "deep": J{"type": "object", "properties": J{"x": J{"type": "integer"}}}}}
		}
		return J{"type": "object", "properties": p}
	}
	at(d, "paths", "/cover")["post"] = J{"operationId": "coverOp", "tags": A{"misc"},
		"parameters": A{J{"in": "body", "name": "body", "schema": inline(3)}},
		"responses": J{
			"200": J{"description": "ok", "schema": inline(2), "examples": J{"application/json": J{"in0": J{"leaf": "a"}}, "application/xml": "<a/>", "text/plain": "a"}},
			"201": J{"description": "created", "schema": J{"$ref": "#/definitions/Importer2"}, "examples": J{"application/json": J{}, "text/csv": "a,b"}},
			"default": J{"description": "err", "schema": J{"type": "array", "items": inline(2)}}}}
	at(d, "paths", "/cover")["put"] = J{"operationId": "coverPut", "tags": A{"misc", "pets"},
		"parameters": A{J{"in": "body", "name": "body", "schema": J{"$ref": "#/definitions/Importer"}}},
		"responses": J{"200": J{"description": "ok", "schema": J{"type": "object", "additionalProperties": J{"$ref": "#/definitions/Importer2"}}}}}
	return d
}

// c07ScanProgram writes an annotated Go program (several packages) below root and returns the --input
// document to merge with.
func c07ScanProgram(root string) string {
	w := func(rel, src string) {
		p := filepath.Join(root, rel)
		must(os.MkdirAll(filepath.Dir(p), 0o755))
		must(os.WriteFile(p, []byte(src), 0o644))
	}
	w("catalog/item.go", "package catalog\n\n// Item of the catalog.\ntype Item struct {\n\tSKU string `json:\"sku\"`\n\tTags []string `json:\"tags\"`\n}\n\n// Shelf is another discovered type.\ntype Shelf struct {\n\tRow int `json:\"row\"`\n}\n\n// Box is only reached from a response body.\ntype Box struct {\n\tWidth int `json:\"width\"`\n}\n\n// Crate is only reached from a body parameter.\ntype Crate struct {\n\tSlats int `json:\"slats\"`\n}\n")
	w("billing/item.go", "package billing\n\n// Item of an invoice.\ntype Item struct {\n\tAmount int64 `json:\"amount\"`\n\tCurrency string `json:\"currency\"`\n}\n\n// Shelf is yet another discovered type.\ntype Shelf struct {\n\tCol int `json:\"col\"`\n}\n\n// Box is only reached from a response body.\ntype Box struct {\n\tPrice int64 `json:\"price\"`\n}\n\n// Crate is only reached from a body parameter.\ntype Crate struct {\n\tDeposit int64 `json:\"deposit\"`\n}\n")
	w("api/doc.go", `// Package api cover API.
//
//	Schemes: http, https
//	Host: localhost
//	BasePath: /v2
//	Version: 0.0.1
//
//	Consumes:
//	- application/json
//	- application/xml
//
//	Produces:
//	- application/json
//	- application/xml
//
//	Security:
//	- api_key:
//
//	SecurityDefinitions:
//	api_key:
//	     type: apiKey
//	     name: KEY
//	     in: header
//	oauth2:
//	    type: oauth2
//	    authorizationUrl: /oauth2/auth
//	    tokenUrl: /oauth2/token
//	    in: header
//	    scopes:
//	      bar: foo
//	      baz: qux
//	    flow: accessCode
//
//	Extensions:
//	x-meta-one: 1
//	x-meta-two: 2
//	x-meta-three: 3
//
//	InfoExtensions:
//	x-info-one: 1
//	x-info-two: 2
//	x-info-three: 3
//
// swagger:meta
package api
`)
	w("api/api.go", `package api

import (
	"verif.scratch/m/`+filepath.Base(root)+`/billing"
	"verif.scratch/m/`+filepath.Base(root)+`/catalog"
)

// Order is a model.
//
// swagger:model
type Order struct {
	// the id
	//
	// required: true
	// Extensions:
	// ---
	// x-prop-one: 1
	// x-prop-two: two
	// x-prop-three:
	//   - a
	//   - b
	ID int64 `+"`json:\"id\"`"+`
	// first seen then ignored
	Hidden string `+"`json:\"hidden\"`"+`
	Name   string `+"`json:\"name\"`"+`
	Other  string `+"`json:\"other\"`"+`
	Lines  []billing.Item `+"`json:\"lines\"`"+`
	Goods  []catalog.Item `+"`json:\"goods\"`"+`
}

// Embedding overrides fields.
//
// swagger:model
type Embedding struct {
	Order
	Hidden string `+"`json:\"-\"`"+`
	Extra  map[string]catalog.Shelf `+"`json:\"extra\"`"+`
}

// ListParams for listing.
//
// swagger:parameters listOrders createOrder
type ListParams struct {
	// in: query
	// Extensions:
	// x-param-one: 1
	// x-param-two: 2
	// x-param-three: 3
	Limit int `+"`json:\"limit\"`"+`
	// in: header
	// Extensions:
	// x-h-one: 1
	// x-h-two: 2
	Trace string `+"`json:\"X-Trace\"`"+`
}

// CrateParams carries a body whose fields are same-named types reached from nowhere else.
//
// swagger:parameters putOrder
type CrateParams struct {
	// in: body
	Body struct {
		G billing.Crate `+"`json:\"g\"`"+`
		H catalog.Crate `+"`json:\"h\"`"+`
	}
}

// ListResponse both Items and both Shelves in one body.
//
// swagger:response listResponse
type ListResponse struct {
	// in: body
	Body struct {
		A catalog.Item  `+"`json:\"a\"`"+`
		B billing.Item  `+"`json:\"b\"`"+`
		C billing.Shelf `+"`json:\"c\"`"+`
		D catalog.Shelf `+"`json:\"d\"`"+`
		O []Order       `+"`json:\"o\"`"+`
		E catalog.Box   `+"`json:\"e\"`"+`
		F billing.Box   `+"`json:\"f\"`"+`
	}
	// in: header
	XRate int `+"`json:\"X-Rate\"`"+`
	// in: header
	XNext string `+"`json:\"X-Next\"`"+`
}

// swagger:route GET /orders orders shop listOrders
//
// Lists orders.
//
// Consumes:
// - application/json
// - application/xml
//
// Produces:
// - application/json
// - text/csv
//
// Schemes: http, https, ws
//
// Security:
//   api_key:
//   oauth2: bar, baz
//
// Responses:
//   default: listResponse
//   200: listResponse
//   404: listResponse
//   422: listResponse
//
// Extensions:
// x-route-one: 1
// x-route-two: 2
// x-route-three: 3
func List() {}

// swagger:route POST /orders orders createOrder
//
// Creates.
//
// Responses:
//   201: listResponse
//   409: listResponse
func Create() {}

// swagger:route PUT /orders/{id} orders putOrder
//
// Puts.
//
// Responses:
//   200: listResponse
func Put() {}
`)
	in := J{"swagger": "2.0", "info": J{"title": "input", "version": "1"}, "paths": J{
		"/orders":      J{"get": J{"operationId": "listOrders", "summary": "from input", "responses": J{"200": J{"description": "ok"}}}, "post": J{"operationId": "createOrder", "responses": J{"201": J{"description": "made"}}}},
		"/orders/{id}": J{"put": J{"operationId": "putOrder", "responses": J{"200": J{"description": "ok"}}}, "delete": J{"operationId": "delOrder", "responses": J{"204": J{"description": "ok"}}}},
		"/other":       J{"get": J{"operationId": "other", "responses": J{"200": J{"description": "ok"}}}},
		"/zzz":         J{"get": J{"operationId": "zzz", "responses": J{"200": J{"description": "ok"}}}},
	}, "definitions": J{"FromInput": J{"type": "object"}, "FromInput2": J{"type": "string"}}}
	ip := filepath.Join(root, "input.json")
	must(os.WriteFile(ip, prettyJSON(in), 0o644))
	return ip
}
