package props

import (
	"fmt"
	"io"
	"log"
	"os"
	"path/filepath"
	"runtime/debug"
	"sort"
	"strings"
	"sync"
	"sync/atomic"
	"time"

	"github.com/go-openapi/loads"
	"github.com/go-openapi/spec"
	"github.com/go-openapi/strfmt"
	"github.com/go-openapi/validate"
	"github.com/go-swagger/go-swagger/cmd/swagger/commands"
	"github.com/go-swagger/go-swagger/cmd/swagger/commands/diff"
	yaml "gopkg.in/yaml.v3"
)

// ScratchRoot returns a fresh scratch directory outside /repo and /verif.
func ScratchRoot(prop string) string {
	base := os.Getenv("VERIF_SCRATCH")
	if base == "" {
		base = "/var/tmp"
	}
	dir := filepath.Join(base, fmt.Sprintf("verif-%s-%d", prop, os.Getpid()))
	_ = os.RemoveAll(dir)
	if err := os.MkdirAll(dir, 0o755); err != nil {
		panic(err)
	}
	return dir
}

func quietLogs() { log.SetOutput(io.Discard) }

// validSpec says whether go-openapi's validator accepts doc as Swagger 2.0.
func validSpec(doc J) error {
	d, err := loads.Analyzed(mustJSON(doc), "")
	if err != nil {
		return err
	}
	v := validate.NewSpecValidator(d.Schema(), strfmt.Default)
	v.Options.SkipSchemataResult = true
	res, _ := v.Validate(d)
	if res != nil && len(res.Errors) > 0 {
		return fmt.Errorf("%v", res.Errors[0])
	}
	return nil
}

type cmpResult struct {
	Diffs diff.SpecDifferences
	Panic string
	Stack string
	Err   error
}

func panicSite(stack string) string {
	// first frame inside the diff package
	lines := strings.Split(stack, "\n")
	for i, l := range lines {
		if strings.Contains(l, "/cmd/swagger/commands/diff") && strings.HasPrefix(strings.TrimSpace(l), "/") {
			f := strings.Fields(strings.TrimSpace(l))[0]
			fn := ""
			if i > 0 {
				fn = strings.TrimSpace(lines[i-1])
				if j := strings.LastIndex(fn, "("); j > 0 {
					fn = fn[:j]
				}
				if j := strings.LastIndex(fn, "/"); j >= 0 {
					fn = fn[j+1:]
				}
			}
			// drop line number (robust to unrelated edits): keep file + function
			if j := strings.LastIndex(f, ":"); j > 0 {
				f = f[:j]
			}
			return filepath.Base(f) + ":" + fn
		}
	}
	return "unknown"
}

// safeCompare runs diff.Compare on fresh copies, recovering panics.
func safeCompare(a, b J) (res cmpResult) {
	sa, err := toSwagger(a)
	if err != nil {
		return cmpResult{Err: err}
	}
	sb, err := toSwagger(b)
	if err != nil {
		return cmpResult{Err: err}
	}
	return safeCompareSw(sa, sb)
}

func safeCompareSw(sa, sb *spec.Swagger) (res cmpResult) {
	defer func() {
		if r := recover(); r != nil {
			res.Panic = fmt.Sprint(r)
			res.Stack = string(debug.Stack())
		}
	}()
	d, err := diff.Compare(sa, sb)
	return cmpResult{Diffs: d, Err: err}
}

type execResult struct {
	Err    error
	Output string
	Panic  string
	Stack  string
}

var execMu sync.Mutex // DiffCommand writes files; serialise per scratch file names
var execSeq int64

// execDiff runs the real DiffCommand on two spec files.
func execDiff(dir, oldPath, newPath, format string, onlyBreaking bool, ignoreFile string) (res execResult) {
	n := atomic.AddInt64(&execSeq, 1)
	dest := filepath.Join(dir, fmt.Sprintf("out-%d.txt", n))
	defer os.Remove(dest)
	defer func() {
		if r := recover(); r != nil {
			res.Panic = fmt.Sprint(r)
			res.Stack = string(debug.Stack())
		}
	}()
	c := &commands.DiffCommand{OnlyBreakingChanges: onlyBreaking, Format: format, IgnoreFile: ignoreFile, Destination: dest}
	if ignoreFile == "" {
		c.IgnoreFile = "none specified"
	}
	c.Args.OldSpec = oldPath
	c.Args.NewSpec = newPath
	err := c.Execute(nil)
	out, _ := os.ReadFile(dest)
	return execResult{Err: err, Output: string(out)}
}

func writeJSONFile(path string, doc interface{}) {
	if err := os.WriteFile(path, prettyJSON(doc), 0o644); err != nil {
		panic(err)
	}
}

func writeYAMLFile(path string, doc interface{}) {
	b, err := yaml.Marshal(normalizeJSON(doc))
	if err != nil {
		panic(err)
	}
	if err := os.WriteFile(path, b, 0o644); err != nil {
		panic(err)
	}
}

func loadDoc(path string) (*spec.Swagger, error) {
	d, err := loads.Spec(path)
	if err != nil {
		return nil, err
	}
	return d.Spec(), nil
}

// diffKey renders a difference without its compatibility, for multiset comparison.
func diffStrings(ds diff.SpecDifferences) []string {
	out := make([]string, len(ds))
	for i, d := range ds {
		out[i] = fmt.Sprintf("[%v] %s", d.Compatibility, d.String())
	}
	sort.Strings(out)
	return out
}

// watchdog implements the non-termination guard: a single case that runs longer than limit is
// reported through onStuck (which must not return normally).
type watchdog struct {
	mu      sync.Mutex
	cur     map[int]wdEntry
	limit   time.Duration
	stop    chan struct{}
	journal string          // directory of per-worker "current case" files ("" = none)
	skip    map[string]bool // cases not to run (confirmed fatal in an earlier round)
	only    string          // run this case only
	skipTokens []string     // family features whose every case is skipped (one confirmed fatal feature)
}
type wdEntry struct {
	what  string
	since time.Time
}

func newWatchdog(limit time.Duration, onStuck func(what string)) *watchdog {
	w := &watchdog{cur: map[int]wdEntry{}, limit: limit, stop: make(chan struct{})}
	go func() {
		t := time.NewTicker(2 * time.Second)
		defer t.Stop()
		for {
			select {
			case <-w.stop:
				return
			case <-t.C:
				w.mu.Lock()
				for _, e := range w.cur {
					if time.Since(e.since) > w.limit {
						w.mu.Unlock()
						onStuck(e.what)
						return
					}
				}
				w.mu.Unlock()
			}
		}
	}()
	return w
}
// enter records the case a worker starts (also in the worker's journal file when a journal directory is
// set: a fatal runtime error such as a stack overflow kills the process, and the parent process finds
// the culprit there). It returns false when the case must not be run (skip list / single-case mode).
func (w *watchdog) enter(id int, what string) bool {
	if w.only != "" && what != w.only {
		return false
	}
	if w.skip[what] {
		return false
	}
	for _, t := range w.skipTokens {
		for _, f := range strings.FieldsFunc(what, func(r rune) bool { return r == ' ' || r == '+' }) {
			if f == t {
				return false
			}
		}
	}
	if w.journal != "" {
		f, err := os.OpenFile(filepath.Join(w.journal, fmt.Sprintf("w%03d", id)), os.O_CREATE|os.O_WRONLY|os.O_TRUNC, 0o644)
		if err == nil {
			_, _ = f.WriteString(what)
			_ = f.Close()
		}
	}
	w.mu.Lock()
	w.cur[id] = wdEntry{what, time.Now()}
	w.mu.Unlock()
	return true
}
func (w *watchdog) leave(id int) { w.mu.Lock(); delete(w.cur, id); w.mu.Unlock() }
func (w *watchdog) close()       { close(w.stop) }

// parallel runs f(i) for i in [0,n) on `workers` goroutines.
func parallel(n, workers int, f func(worker, i int)) {
	var next int64 = -1
	var wg sync.WaitGroup
	for w := 0; w < workers; w++ {
		wg.Add(1)
		go func(w int) {
			defer wg.Done()
			for {
				i := int(atomic.AddInt64(&next, 1))
				if i >= n {
					return
				}
				f(w, i)
			}
		}(w)
	}
	wg.Wait()
}
