package props

import (
	"encoding/json"
	"fmt"
	"os"
	"path/filepath"
	"runtime"
	"sort"
	"strings"

	"github.com/go-swagger/go-swagger/cmd/swagger/commands/diff"

	"verif/mc/evid"
)

// C15 — ignore file, report formats and exit status are coherent.

type c15Case struct {
	A    string `json:"a"`
	B    string `json:"b"`
	DocA J      `json:"doc_a,omitempty"`
	DocB J      `json:"doc_b,omitempty"`
}

// entryKey is the reference notion of "the same entry": the full JSON form.
func entryKeys(raw []json.RawMessage) []string {
	out := make([]string, len(raw))
	for i, r := range raw {
		var v interface{}
		_ = json.Unmarshal(r, &v)
		out[i] = string(mustJSON(v))
	}
	return out
}

func isBreakingEntry(key string) bool {
	var e struct {
		Compatibility string `json:"compatibility"`
	}
	_ = json.Unmarshal([]byte(key), &e)
	return e.Compatibility == "Breaking"
}

// subsets returns the ignore subsets (as index lists) explored for a report of n entries.
func subsets(n int, breaking []bool) [][]int {
	var out [][]int
	if n <= 4 {
		for m := 0; m < 1<<n; m++ {
			var s []int
			for i := 0; i < n; i++ {
				if m&(1<<i) != 0 {
					s = append(s, i)
				}
			}
			out = append(out, s)
		}
		return out
	}
	all := make([]int, n)
	for i := range all {
		all[i] = i
	}
	out = append(out, nil, all)
	for i := 0; i < n; i++ {
		out = append(out, []int{i})
		var co []int
		for j := 0; j < n; j++ {
			if j != i {
				co = append(co, j)
			}
		}
		out = append(out, co)
	}
	var br, nb []int
	for i, b := range breaking {
		if b {
			br = append(br, i)
		} else {
			nb = append(nb, i)
		}
	}
	out = append(out, br, nb)
	return out
}

// parseTextReport splits the text report into its sections.
func parseTextReport(out string) (sections map[string][]string, verdict string, ok bool) {
	sections = map[string][]string{}
	cur := ""
	lines := strings.Split(out, "\n")
	for i := 0; i < len(lines); i++ {
		l := lines[i]
		switch {
		case l == "":
			continue
		case l == "NON-BREAKING CHANGES:" || l == "NON-BREAKING CHANGES WITH WARNING:" || l == "BREAKING CHANGES:":
			cur = strings.TrimSuffix(l, ":")
			if _, dup := sections[cur]; dup {
				return nil, "", false
			}
			sections[cur] = []string{}
			if i+1 < len(lines) && strings.Trim(lines[i+1], "=") == "" && lines[i+1] != "" {
				i++
			}
		case strings.HasPrefix(l, "compatibility test ") || l == "No changes identified":
			verdict = l
		default:
			if cur == "" {
				return nil, "", false
			}
			sections[cur] = append(sections[cur], l)
		}
	}
	return sections, verdict, true
}

func sameStrings(a, b []string) bool {
	a, b = append([]string{}, a...), append([]string{}, b...)
	sort.Strings(a)
	sort.Strings(b)
	if len(a) != len(b) {
		return false
	}
	for i := range a {
		if a[i] != b[i] {
			return false
		}
	}
	return true
}

func c15Check(dir string, cs c15Case, full bool) (outcome string, vs []evid.Violation, execs int) {
	po, pn := filepath.Join(dir, "old.json"), filepath.Join(dir, "new.json")
	writeJSONFile(po, cs.DocA)
	writeJSONFile(pn, cs.DocB)
	viol := func(clause, detail string, obs interface{}) {
		vs = append(vs, evid.Violation{Signature: clause, What: fmt.Sprintf("(%s -> %s) %s", cs.A, cs.B, detail), Case: cs, Observed: obs})
	}
	run := func(format string, b bool, ign string) execResult {
		execs++
		return execDiff(dir, po, pn, format, b, ign)
	}
	base := run("json", false, "")
	if base.Panic != "" {
		return "crash(C12)", nil, execs
	}
	var raw []json.RawMessage
	if err := json.Unmarshal([]byte(base.Output), &raw); err != nil {
		viol("json-report-unparsable", "JSON report does not parse: "+err.Error(), base.Output)
		return "bad-json", vs, execs
	}
	keys := entryKeys(raw)
	n := len(keys)
	breaking := make([]bool, n)
	anyBreaking := false
	for i, k := range keys {
		breaking[i] = isBreakingEntry(k)
		anyBreaking = anyBreaking || breaking[i]
	}
	// decode with the tool's own types (needed for String())
	var decoded diff.SpecDifferences
	if err := json.Unmarshal([]byte(base.Output), &decoded); err != nil {
		viol("clause5 json-roundtrip", "the tool cannot read back its own JSON report: "+err.Error(), base.Output)
		return "bad-json", vs, execs
	}
	// clause 5 on the observed entries: re-encoding the decoded entries gives the same entries
	if re, err := diff.JSONMarshal(decoded); err == nil {
		var raw2 []json.RawMessage
		_ = json.Unmarshal(re, &raw2)
		if !sameStrings(entryKeys(raw2), keys) && !(n == 0 && len(raw2) == 0) {
			viol("clause5 json-roundtrip", "decode+encode of the JSON report changes its entries", map[string]interface{}{"report": keys, "reencoded": entryKeys(raw2)})
		}
	}
	if n == 0 {
		// still check exit status coherence on an empty report
		for _, m := range []struct {
			f string
			b bool
		}{{"txt", false}, {"txt", true}, {"json", false}} {
			if r := run(m.f, m.b, ""); r.Err != nil {
				viol("clause3 exit "+m.f, "empty report but non-nil error: "+r.Err.Error(), r.Output)
			}
		}
		return "empty", vs, execs
	}

	ignPath := filepath.Join(dir, "ignore.json")
	subs := [][]int{nil}
	if full {
		subs = subsets(n, breaking)
	} else {
		all := make([]int, n)
		for i := range all {
			all[i] = i
		}
		subs = [][]int{nil, all}
	}
	for _, s := range subs {
		inS := map[string]bool{}
		var ignEntries []json.RawMessage
		for _, i := range s {
			inS[keys[i]] = true
			ignEntries = append(ignEntries, raw[i])
		}
		ign := ""
		if s != nil {
			if len(s) == n {
				// clause 1: the report is fed back verbatim
				_ = os.WriteFile(ignPath, []byte(base.Output), 0o644)
			} else {
				b, _ := json.Marshal(ignEntries)
				if len(ignEntries) == 0 {
					b = []byte("[]")
				}
				_ = os.WriteFile(ignPath, b, 0o644)
			}
			ign = ignPath
		}
		var expect []string
		expBreaking := false
		for _, k := range keys {
			if !inS[k] {
				expect = append(expect, k)
				if isBreakingEntry(k) {
					expBreaking = true
				}
			}
		}
		label := fmt.Sprintf("ignore %d of %d", len(s), n)
		// json format
		rj := run("json", false, ign)
		var rawS []json.RawMessage
		if err := json.Unmarshal([]byte(rj.Output), &rawS); err != nil {
			viol("json-report-unparsable", label+": JSON report does not parse", rj.Output)
			continue
		}
		got := entryKeys(rawS)
		if !sameStrings(got, expect) {
			clause := "clause2 ignore-subset"
			if len(s) == n {
				clause = "clause1 ignore-all"
			}
			onlyGot, onlyExp := multisetDiff(got, expect)
			viol(clause, fmt.Sprintf("%s: report after ignoring is not the original minus the ignored entries; unexpectedly present %v; unexpectedly missing %v", label, onlyGot, onlyExp), map[string]interface{}{"ignored": s})
		}
		if (rj.Err != nil) != expBreaking {
			viol("clause3 exit json", fmt.Sprintf("%s: --format json returned error=%v but a non-ignored Breaking difference exists=%v", label, rj.Err, expBreaking), rj.Output)
		}
		// txt format
		rt := run("txt", false, ign)
		if (rt.Err != nil) != expBreaking {
			viol("clause3 exit txt", fmt.Sprintf("%s: txt format returned error=%v but a non-ignored Breaking difference exists=%v", label, rt.Err, expBreaking), rt.Output)
		}
		// expected text content from the decoded remaining entries
		var remaining diff.SpecDifferences
		_ = json.Unmarshal(mustJSON(rawS), &remaining)
		group := map[string][]string{"NON-BREAKING CHANGES": {}, "NON-BREAKING CHANGES WITH WARNING": {}, "BREAKING CHANGES": {}}
		for _, d := range remaining {
			switch d.Compatibility {
			case diff.Breaking:
				group["BREAKING CHANGES"] = append(group["BREAKING CHANGES"], d.String())
			case diff.Warning:
				group["NON-BREAKING CHANGES WITH WARNING"] = append(group["NON-BREAKING CHANGES WITH WARNING"], d.String())
			default:
				group["NON-BREAKING CHANGES"] = append(group["NON-BREAKING CHANGES"], d.String())
			}
		}
		secs, verdict, ok := parseTextReport(rt.Output)
		if !ok {
			viol("clause4 text-structure", label+": text report has an unexpected structure", rt.Output)
		} else {
			for name, want := range group {
				if !sameStrings(secs[name], want) {
					viol("clause4 text-vs-json "+name, fmt.Sprintf("%s: section %q of the text report lists %v but the JSON report has %v", label, name, secs[name], want), rt.Output)
				}
			}
			if len(remaining) == 0 && verdict != "No changes identified" {
				viol("clause4 text-verdict", label+": empty report but text says "+verdict, rt.Output)
			}
			if len(remaining) > 0 && (strings.Contains(verdict, "FAILED") != expBreaking) {
				viol("clause4 text-verdict", fmt.Sprintf("%s: verdict line %q but breaking=%v", label, verdict, expBreaking), rt.Output)
			}
		}
		// breaking-only report
		rb := run("txt", true, ign)
		if (rb.Err != nil) != expBreaking {
			viol("clause3 exit txt-b", fmt.Sprintf("%s: -b returned error=%v but a non-ignored Breaking difference exists=%v", label, rb.Err, expBreaking), rb.Output)
		}
		secsB, _, okB := parseTextReport(rb.Output)
		if !okB {
			viol("clause4 text-structure", label+": -b report has an unexpected structure", rb.Output)
		} else {
			if !sameStrings(secsB["BREAKING CHANGES"], group["BREAKING CHANGES"]) {
				viol("clause4 b-vs-json", fmt.Sprintf("%s: -b report lists %v but the JSON report has Breaking %v", label, secsB["BREAKING CHANGES"], group["BREAKING CHANGES"]), rb.Output)
			}
			if len(secsB["NON-BREAKING CHANGES"])+len(secsB["NON-BREAKING CHANGES WITH WARNING"]) > 0 {
				viol("clause4 b-vs-json", label+": -b report contains non-breaking entries", rb.Output)
			}
		}
	}
	if anyBreaking {
		return "breaking", vs, execs
	}
	return "nonbreaking", vs, execs
}

// c15Codes enumerates every (code, compatibility) and checks the JSON round trip directly (clause 5).
func c15Codes(r *evid.Run) {
	for code := 0; code < 200; code++ {
		c := diff.SpecChangeCode(code)
		if _, ok := codeClass[c]; !ok {
			if code < len(codeClass) {
				r.HarnessError("change code %d missing from the mirror/code table", code)
			}
			continue
		}
		for _, compat := range []diff.Compatibility{diff.Breaking, diff.NonBreaking, diff.Warning} {
			d := diff.SpecDifference{Code: c, Compatibility: compat, DiffInfo: `i "q" <&>`, DifferenceLocation: diff.DifferenceLocation{URL: "/u", Method: "get", Response: 200, Node: &diff.Node{Field: "f", TypeName: "t", IsArray: true, ChildNode: &diff.Node{Field: "c"}}}}
			b, err := diff.JSONMarshal(diff.SpecDifferences{d})
			out := "roundtrip"
			var back diff.SpecDifferences
			if err == nil {
				err = json.Unmarshal(b, &back)
			}
			if err != nil || len(back) != 1 || !back[0].Matches(d) || back[0].Code != d.Code || back[0].Compatibility != d.Compatibility {
				out = "lossy"
				r.Violate(evid.Violation{Signature: fmt.Sprintf("clause5 code %s", c.Description()), What: fmt.Sprintf("JSON round trip of change code %d (%s) / %v is not the identity: %v %s", code, c.Description(), compat, err, string(b)), Case: map[string]interface{}{"code": code, "compat": compat.String()}})
			}
			r.CaseKeyed(fmt.Sprintf("code|%d|%d", code, compat), map[string]interface{}{"kind": "code-roundtrip", "code": c.Description(), "compat": compat.String()}, true, out)
		}
	}
}

func RunC15(tier string, replay string) int {
	quietLogs()
	r := evid.New("C15", tier)
	r.Rule = "pairs (A,B) of diff-family members and catalogue edits, each run through the real DiffCommand.Execute with real files in json, txt and -b formats under ignore files built from the run's own JSON report: all 2^n subsets when n<=4, else {none, all (verbatim report), every singleton, every co-singleton, Breaking subset, non-Breaking subset}; plus every (change code x compatibility) through the JSON round trip. distinct = distinct pair or code; non-trivial = non-empty report"
	r.Assume = []string{"in-process DiffCommand.Execute returning a non-nil error is the process exiting non-zero (cmd/swagger/swagger.go exits 1 on any command error)", "identical report entries are indistinguishable: ignoring one ignores all of its copies"}
	dir := ScratchRoot("C15")
	defer os.RemoveAll(dir)
	if replay != "" {
		r.Replay = true
		var rep struct {
			Case c15Case `json:"case"`
		}
		if err := readJSONFile(replay, &rep); err != nil {
			fmt.Fprintln(os.Stderr, err)
			return 2
		}
		out, vs, _ := c15Check(dir, rep.Case, true)
		fmt.Println("outcome:", out)
		for _, v := range vs {
			fmt.Println(v.Signature, "::", v.What)
			r.Violate(v)
		}
		return r.Finish()
	}
	c15Codes(r)
	fam, _ := Family(1)
	var cases []c15Case
	var fullSubsets []bool
	base := fam[0]
	for i := range fam {
		for j := range fam {
			if i == j {
				continue
			}
			isBasePair := i == 0 || j == 0
			if tier != "thorough" && !isBasePair {
				continue
			}
			cases = append(cases, c15Case{A: fam[i].Name, B: fam[j].Name, DocA: fam[i].Doc, DocB: fam[j].Doc})
			fullSubsets = append(fullSubsets, isBasePair || tier == "thorough")
		}
	}
	_ = base
	for _, e := range append(EditPairs(tier), NeutralEdits()...) {
		cases = append(cases, c15Case{A: e.Name + ":old", B: e.Name + ":new", DocA: e.Old, DocB: e.New})
		fullSubsets = append(fullSubsets, true)
		cases = append(cases, c15Case{A: e.Name + ":new", B: e.Name + ":old", DocA: e.New, DocB: e.Old})
		fullSubsets = append(fullSubsets, true)
	}
	// multi-change pairs: two-feature members against base (reports with several entries of all three classes)
	fam2, _ := Family(2)
	for _, f := range fam2 {
		if len(f.Feat) == 2 && (tier == "thorough" || strings.Contains(f.Name, "meta=2") || strings.Contains(f.Name, "meta=6")) {
			cases = append(cases, c15Case{A: base.Name, B: f.Name, DocA: base.Doc, DocB: f.Doc})
			fullSubsets = append(fullSubsets, true)
			cases = append(cases, c15Case{A: f.Name, B: base.Name, DocA: f.Doc, DocB: base.Doc})
			fullSubsets = append(fullSubsets, true)
		}
	}
	r.Extra["pairs"] = len(cases)
	totalExecs := 0
	execCounts := make([]int, len(cases))
	parallel(len(cases), runtime.NumCPU(), func(w, i int) {
		wdir := filepath.Join(dir, fmt.Sprint(w))
		_ = os.MkdirAll(wdir, 0o755)
		out, vs, ex := c15Check(wdir, cases[i], fullSubsets[i])
		execCounts[i] = ex
		for _, v := range vs {
			r.Violate(v)
		}
		r.CaseKeyed(cases[i].A+"|"+cases[i].B, map[string]string{"a": cases[i].A, "b": cases[i].B, "outcome": out}, out == "breaking" || out == "nonbreaking", out)
	})
	for _, e := range execCounts {
		totalExecs += e
	}
	r.Trans = totalExecs
	r.Extra["command_executions"] = totalExecs
	r.Extra["bound_completed"] = "ignore subsets: all 2^n for n<=4, else none/all/singletons/co-singletons/Breaking/non-Breaking"
	return r.Finish()
}
