package props

import (
	"encoding/base64"
	"encoding/json"
	"fmt"
	"net/url"
	"os"
	"runtime"
	"sort"
	"strings"

	"verif/mc/evid"
)

// C06 — generated server enforces security requirements exactly.

// secAlt is one alternative (AND of schemes): scheme -> required scopes.
type secAlt map[string][]string

type secReq struct {
	Declared bool     `json:"declared"`
	Alts     []secAlt `json:"alternatives"`
}

func (r secReq) String() string {
	if !r.Declared {
		return "absent"
	}
	if len(r.Alts) == 0 {
		return "[]"
	}
	var alts []string
	for _, a := range r.Alts {
		var parts []string
		for _, s := range sortedAltKeys(a) {
			if len(a[s]) > 0 {
				parts = append(parts, s+"["+strings.Join(a[s], ",")+"]")
			} else {
				parts = append(parts, s)
			}
		}
		alts = append(alts, strings.Join(parts, "&"))
	}
	return strings.Join(alts, " | ")
}

func sortedAltKeys(a secAlt) []string {
	ks := make([]string, 0, len(a))
	for k := range a {
		ks = append(ks, k)
	}
	sort.Strings(ks)
	return ks
}

func (r secReq) JSON() interface{} {
	out := A{}
	for _, a := range r.Alts {
		o := J{}
		for s, sc := range a {
			l := A{}
			for _, x := range sc {
				l = append(l, x)
			}
			o[s] = l
		}
		out = append(out, o)
	}
	return out
}

func secAlternatives(schemes []string) []secAlt {
	var singles []secAlt
	for _, s := range schemes {
		if s == "o" {
			singles = append(singles, secAlt{"o": {"r"}}, secAlt{"o": {"r", "w"}})
		} else {
			singles = append(singles, secAlt{s: {}})
		}
	}
	out := append([]secAlt{}, singles...)
	for i := range singles {
		for j := i + 1; j < len(singles); j++ {
			a, b := singles[i], singles[j]
			same := false
			for k := range a {
				if _, ok := b[k]; ok {
					same = true
				}
			}
			if same {
				continue
			}
			m := secAlt{}
			for k, v := range a {
				m[k] = v
			}
			for k, v := range b {
				m[k] = v
			}
			out = append(out, m)
		}
	}
	return out
}

// secLists: absent, [], every single alternative, and OR pairs.
func secLists(schemes []string, allPairs bool) []secReq {
	alts := secAlternatives(schemes)
	out := []secReq{{Declared: false}, {Declared: true}}
	for _, a := range alts {
		out = append(out, secReq{Declared: true, Alts: []secAlt{a}})
	}
	for i := range alts {
		for j := i + 1; j < len(alts); j++ {
			if !allPairs {
				// quick: OR pairs of single-scheme alternatives, plus (single | pair) shapes for the first pair
				if len(alts[i]) > 1 || (len(alts[j]) > 1 && i > 0) {
					continue
				}
			}
			out = append(out, secReq{Declared: true, Alts: []secAlt{alts[i], alts[j]}})
		}
	}
	return out
}

// cred: per scheme "", "valid", "invalid"; for o: "", "r", "rw", "invalid"
type creds map[string]string

func allCreds(schemes []string) []creds {
	out := []creds{{}}
	for _, s := range schemes {
		opts := []string{"", "valid", "invalid"}
		if s == "o" {
			opts = []string{"", "r", "rw", "invalid"}
		}
		var next []creds
		for _, c := range out {
			for _, o := range opts {
				n := creds{}
				for k, v := range c {
					n[k] = v
				}
				if o != "" {
					n[s] = o
				}
				next = append(next, n)
			}
		}
		out = next
	}
	return out
}

func authenticated(scheme string, scopes []string, c creds) bool {
	v := c[scheme]
	if scheme != "o" {
		return v == "valid"
	}
	if v == "" || v == "invalid" {
		return false
	}
	granted := map[string]bool{}
	for _, ch := range v {
		granted[string(ch)] = true
	}
	for _, s := range scopes {
		if !granted[s] {
			return false
		}
	}
	return true
}

// refsec: the reference evaluator.
func refsec(global, op secReq, c creds) (reach bool, okPrincipals map[string]bool, open bool) {
	eff := global
	if op.Declared {
		eff = op
	}
	if !eff.Declared || len(eff.Alts) == 0 {
		return true, nil, true
	}
	okPrincipals = map[string]bool{}
	for _, a := range eff.Alts {
		sat := true
		for s, sc := range a {
			if !authenticated(s, sc, c) {
				sat = false
			}
		}
		if sat {
			reach = true
			for s := range a {
				okPrincipals[s] = true
			}
		}
	}
	return reach, okPrincipals, false
}

type c06Case struct {
	Global    string `json:"global"`
	Op        string `json:"operation"`
	Creds     creds  `json:"credentials"`
	Doc       J      `json:"doc,omitempty"`
	OpID      string `json:"op_id"`
	GlobalReq secReq `json:"global_req"`
	OpReq     secReq `json:"op_req"`
}

func c06Doc(schemes []string, global secReq, ops []secReq) J {
	defs := J{
		"b":  J{"type": "basic"},
		"kh": J{"type": "apiKey", "in": "header", "name": "X-Key"},
		"kq": J{"type": "apiKey", "in": "query", "name": "key"},
		"o":  J{"type": "oauth2", "flow": "password", "tokenUrl": "https://example.com/token", "scopes": J{"r": "read", "w": "write"}},
	}
	sd := J{}
	for _, s := range schemes {
		sd[s] = defs[s]
	}
	doc := J{"swagger": "2.0", "info": J{"title": "verif", "version": "1"}, "consumes": A{"application/json"}, "produces": A{"application/json"}, "securityDefinitions": sd, "paths": J{}}
	if global.Declared {
		doc["security"] = global.JSON()
	}
	for i, o := range ops {
		op := J{"operationId": fmt.Sprintf("s%04d", i), "responses": J{"200": J{"description": "ok"}}}
		if o.Declared {
			op["security"] = o.JSON()
		}
		at(doc, "paths", fmt.Sprintf("/s%04d", i))["get"] = op
	}
	return doc
}

func c06Request(opIdx int, c creds, field map[string]string) HTTPReq {
	q := url.Values{}
	h := map[string][]string{}
	if v, ok := c["b"]; ok {
		pass := "wrong"
		if v == "valid" {
			pass = "valid-" + field["b"]
		}
		h["Authorization"] = []string{"Basic " + base64.StdEncoding.EncodeToString([]byte("u:"+pass))}
	}
	if v, ok := c["kh"]; ok {
		tok := "wrong"
		if v == "valid" {
			tok = "valid-" + field["kh"]
		}
		h["X-Key"] = []string{tok}
	}
	if v, ok := c["kq"]; ok {
		tok := "wrong"
		if v == "valid" {
			tok = "valid-" + field["kq"]
		}
		q.Set("key", tok)
	}
	if v, ok := c["o"]; ok {
		tok := "wrong"
		switch v {
		case "r":
			tok = "valid-" + field["o"] + ":r"
		case "rw":
			tok = "valid-" + field["o"] + ":r,w"
		}
		q.Set("access_token", tok)
	}
	u := fmt.Sprintf("/s%04d", opIdx)
	if len(q) > 0 {
		u += "?" + q.Encode()
	}
	return HTTPReq{Method: "GET", URL: u, Header: h}
}

func credClass(c creds) string {
	var parts []string
	for _, s := range []string{"b", "kh", "kq", "o"} {
		if v, ok := c[s]; ok {
			parts = append(parts, s+"="+v)
		}
	}
	if len(parts) == 0 {
		return "none"
	}
	return strings.Join(parts, ",")
}

func RunC06(tier, replay string) int {
	quietLogs()
	r := evid.New("C06", tier)
	schemes := []string{"b", "kh", "kq", "o"}
	r.Rule = "schemes {basic b, apiKey header kh, apiKey query kq, oauth2 o with scopes r,w}; alternatives = scheme subsets of size <=2 (oauth2 with scope sets {r},{r,w}); requirement lists = absent, [], every single alternative, OR pairs; one generated server per GLOBAL requirement, one operation per OPERATION requirement in each; credentials = every combination of {not presented, valid, invalid} per scheme (oauth2: not presented, scopes r, scopes r+w, invalid). Each request is served by the COMPILED generated server with table-driven stub authenticators and compared with a 30-line requirement evaluator. distinct = (global, operation requirement, credential set); non-trivial = effective requirement non-empty"
	r.Assume = []string{"go-openapi/runtime security middleware is the mechanism under the generated wiring; stub authenticators: valid credential -> principal P:<field>, invalid -> errors.Unauthenticated, absent -> scheme not applied", "oauth2 token presented as access_token query parameter (basic occupies the Authorization header)"}
	s := NewScratch("C06")
	defer s.Close()
	ops := secLists(schemes, tier == "thorough")
	var globals []secReq
	if tier == "thorough" {
		globals = secLists(schemes, false)
	} else {
		all := secLists(schemes, false)
		globals = []secReq{all[0], all[1]}
		for _, g := range all[2:] {
			str := g.String()
			if str == "b" || str == "kh" || str == "o[r]" || str == "b&kh" || str == "b | kq" || str == "kq&o[r,w]" {
				globals = append(globals, g)
			}
		}
	}
	if replay != "" {
		r.Replay = true
		var rep struct {
			Case c06Case `json:"case"`
		}
		if err := readJSONFile(replay, &rep); err != nil {
			fmt.Fprintln(os.Stderr, err)
			return 2
		}
		globals = []secReq{rep.Case.GlobalReq}
		ops = []secReq{rep.Case.OpReq}
	}
	// every global requirement with the default principal; a subset again with a typed principal
	// (--principal models.Principal), which makes the generator wrap the authenticators
	typedFrom := len(globals)
	for _, g := range append([]secReq{}, globals...) {
		str := g.String()
		if tier == "thorough" || replay != "" || str == "b" || str == "b&kh" || str == "o[r]" || str == "kq&o[r,w]" {
			globals = append(globals, g)
		}
	}
	if replay != "" {
		typedFrom = 1
	}
	specs := make([]ServerSpec, len(globals))
	for i, g := range globals {
		d := c06Doc(schemes, g, ops)
		if i >= typedFrom {
			at(d, "definitions")["Principal"] = J{"type": "object", "properties": J{"name": J{"type": "string"}}}
			specs[i] = ServerSpec{Doc: d, Args: []string{"--principal", "models.Principal"}}
		} else {
			specs[i] = ServerSpec{Doc: d}
		}
	}
	r.Extra["servers(global requirements)"] = len(globals)
	r.Extra["of_which_with_typed_principal"] = len(globals) - typedFrom
	r.Extra["operations_per_server"] = len(ops)
	cases := GenServersSpec(s, specs)
	BuildServers(s, cases)
	cl := allCreds(schemes)
	r.Extra["credential_sets"] = len(cl)
	r.Extra["bound_completed"] = "alternatives of <=2 schemes, lists of <=2 alternatives, all credential combinations"
	parallel(len(cases), runtime.NumCPU(), func(_, gi int) {
		c := cases[gi]
		if c.Bin == "" {
			r.HarnessError("server for global requirement %s does not generate/build: %s %s", globals[gi], c.GenErr, c.BuildErr)
			return
		}
		fields, err := c.Fields(s)
		if err != nil {
			r.HarnessError("%v", err)
			return
		}
		field := map[string]string{}
		for _, sc := range schemes {
			for _, f := range fields {
				if goFieldKey(f) == goFieldKey(sc+"Auth") {
					field[sc] = f
				}
			}
		}
		var reqs []HTTPReq
		type meta struct {
			oi int
			c  creds
		}
		var metas []meta
		for oi := range ops {
			for _, cr := range cl {
				reqs = append(reqs, c06Request(oi, cr, field))
				metas = append(metas, meta{oi, cr})
			}
		}
		res, err := c.Exec(s, reqs)
		if err != nil {
			r.HarnessError("%v", err)
			return
		}
		for i, m := range metas {
			g, o := globals[gi], ops[m.oi]
			reach, okP, open := refsec(g, o, m.c)
			cs := c06Case{Global: g.String(), Op: o.String(), Creds: m.c, OpID: fmt.Sprintf("s%04d", m.oi), GlobalReq: g, OpReq: o}
			typed := ""
			if gi >= typedFrom {
				typed = "typed-principal "
			}
			key := fmt.Sprintf("%s%s|%s|%s", typed, g, o, credClass(m.c))
			out := "denied"
			if reach {
				out = "reached"
			}
			if open {
				out = "open"
			}
			viol := func(kind, what string) {
				out = "VIOLATION:" + kind
				r.Violate(evid.Violation{Signature: fmt.Sprintf("%s%s | global=%s | op=%s | %s", typed, kind, g, o, credClass(m.c)), What: fmt.Sprintf("%s: global security %s, operation security %s, credentials %s: %s", kind, g, o, credClass(m.c), what), Case: cs,
					Observed: map[string]interface{}{"status": res[i].Status, "reached": res[i].Reached, "principal": string(res[i].Principal), "auth_calls": res[i].AuthCalls, "body": trunc(res[i].Body, 200)}})
			}
			rr := res[i]
			switch {
			case rr.Panic != "":
				viol("panic", firstLine(rr.Panic))
			case reach && rr.Reached == "":
				viol("denied-authorized", fmt.Sprintf("an alternative is satisfied but the server answered %d without running the handler", rr.Status))
			case !reach && rr.Reached != "":
				viol("served-unauthorized", "no alternative of the effective requirement is satisfied but the handler ran")
			case !reach && rr.Status != 401 && rr.Status != 403:
				viol("wrong-status", fmt.Sprintf("unauthorized request answered with %d instead of 401/403", rr.Status))
			case reach && !open && rr.HasPrincipal:
				p := strings.Trim(string(rr.Principal), `"`)
				var tp struct {
					Name string `json:"name"`
				}
				if json.Unmarshal(rr.Principal, &tp) == nil && tp.Name != "" {
					p = tp.Name
				}
				okp := false
				for sc := range okP {
					if p == "P:"+field[sc] {
						okp = true
					}
				}
				if !okp {
					viol("wrong-principal", fmt.Sprintf("handler received principal %s, which no authenticator of a satisfied alternative returned", p))
				}
			case reach && !open && !rr.HasPrincipal:
				viol("no-principal", "secured operation's handler is generated without a principal argument")
			}
			r.CaseKeyed(key, map[string]interface{}{"global": g.String(), "operation": o.String(), "credentials": credClass(m.c), "expected_reach": reach}, !open, out)
		}
	})
	return r.Finish()
}
