package props

import (
	"encoding/json"
	"fmt"
	"os"
	"path/filepath"
	"runtime"
	"sort"
	"strings"
	"time"

	"verif/mc/evid"
	"verif/mc/xplore"
)

// C17 — generate spec yields a valid, faithful document or an error; arbitrary comment text never
// makes the scanner crash.

// fact is one expectation about the scanned document: JSON path -> expected JSON value.
type fact struct {
	Path []string    `json:"path"`
	Want interface{} `json:"want"`
	What string      `json:"what"`
}

type c17Program struct {
	Name   string `json:"name"`
	Class  string `json:"class"`
	Pkg    string `json:"pkg"`
	Source string `json:"source"`
	Facts  []fact `json:"facts"`
}

func indentComment(lines []string) string {
	var b strings.Builder
	for _, l := range lines {
		if l == "" {
			b.WriteString("//\n")
		} else {
			b.WriteString("// " + l + "\n")
		}
	}
	return b.String()
}

// ---------------------------------------------------------------- A1: faithfulness

type paramField struct {
	Go    string   // field type
	In    string   // location
	Lines []string // annotation lines
	Facts func(base []string) []fact
	Name  string
}

func c17ParamFields() []paramField {
	f := func(name, goType, in string, lines []string, kv map[string]interface{}) paramField {
		return paramField{Name: name, Go: goType, In: in, Lines: lines, Facts: func(base []string) []fact {
			var out []fact
			keys := make([]string, 0, len(kv))
			for k := range kv {
				keys = append(keys, k)
			}
			sort.Strings(keys)
			for _, k := range keys {
				out = append(out, fact{Path: append(append([]string{}, base...), strings.Split(k, ".")...), Want: kv[k], What: "parameter " + name + " " + k})
			}
			return out
		}}
	}
	return []paramField{
		f("plain", "string", "query", nil, map[string]interface{}{"type": "string", "in": "query"}),
		f("required", "string", "query", []string{"required: true"}, map[string]interface{}{"required": true}),
		f("minmax", "int64", "query", []string{"minimum: 2", "maximum: 9"}, map[string]interface{}{"type": "integer", "format": "int64", "minimum": 2.0, "maximum": 9.0}),
		f("exclusive", "int32", "query", []string{"minimum: > 2", "maximum: < 9"}, map[string]interface{}{"minimum": 2.0, "exclusiveMinimum": true, "maximum": 9.0, "exclusiveMaximum": true, "format": "int32"}),
		f("multiple", "float64", "query", []string{"multiple of: 0.5"}, map[string]interface{}{"type": "number", "multipleOf": 0.5}),
		f("lengths", "string", "query", []string{"min length: 2", "max length: 8"}, map[string]interface{}{"minLength": 2.0, "maxLength": 8.0}),
		f("pattern", "string", "query", []string{`pattern: ^[a-z]+\d$`}, map[string]interface{}{"pattern": `^[a-z]+\d$`}),
		f("enum", "string", "query", []string{"enum: red,green,blue"}, map[string]interface{}{"enum": []interface{}{"red", "green", "blue"}}),
		f("default", "int64", "query", []string{"default: 7"}, map[string]interface{}{"default": 7.0}),
		f("example", "string", "query", []string{"example: sample"}, map[string]interface{}{"example": "sample"}),
		f("bool", "bool", "query", []string{"default: true"}, map[string]interface{}{"type": "boolean", "default": true}),
		f("slice", "[]string", "query", []string{"min items: 1", "max items: 4", "unique: true", "collection format: pipes"}, map[string]interface{}{"type": "array", "minItems": 1.0, "maxItems": 4.0, "uniqueItems": true, "collectionFormat": "pipes", "items.type": "string"}),
		f("items", "[]int32", "query", []string{"items.minimum: 1", "items.maximum: 5"}, map[string]interface{}{"items.minimum": 1.0, "items.maximum": 5.0, "items.format": "int32"}),
		f("items2", "[][]string", "query", []string{"items.items.min length: 2", "items.items.pattern: ^x", "items.min items: 1"}, map[string]interface{}{"items.items.minLength": 2.0, "items.items.pattern": "^x", "items.minItems": 1.0}),
		f("items-ptr-elem", "[]*string", "query", []string{"items.min length: 3", "items.enum: abc,abcd", "max items: 2"}, map[string]interface{}{"type": "array", "maxItems": 2.0, "items.minLength": 3.0, "items.enum": []interface{}{"abc", "abcd"}, "items.type": "string", "minLength": nil, "enum": nil}),
		f("items-ptr-int", "[]*int32", "header", []string{"items.maximum: 5"}, map[string]interface{}{"in": "header", "items.maximum": 5.0, "items.format": "int32", "maximum": nil}),
		f("ptr-scalar", "*int64", "query", []string{"minimum: 2"}, map[string]interface{}{"type": "integer", "minimum": 2.0}),
		f("header", "string", "header", nil, map[string]interface{}{"in": "header", "type": "string"}),
		f("path", "int64", "path", nil, map[string]interface{}{"in": "path", "required": true, "type": "integer"}),
		f("form", "string", "formData", []string{"max length: 5"}, map[string]interface{}{"in": "formData", "maxLength": 5.0}),
		f("query-required-false", "string", "query", []string{"required: false"}, map[string]interface{}{"in": "query"}),
		f("header-required", "string", "header", []string{"required: true"}, map[string]interface{}{"in": "header", "required": true}),
		f("form-required", "string", "formData", []string{"required: true"}, map[string]interface{}{"in": "formData", "required": true}),
		f("path-required-false", "string", "path", []string{"required: false"}, map[string]interface{}{"in": "path", "required": true}),
		f("path-required-true", "string", "path", []string{"required: true"}, map[string]interface{}{"in": "path", "required": true}),
		f("date", "strfmt.DateTime", "query", nil, map[string]interface{}{"type": "string", "format": "date-time"}),
		f("description", "string", "query", []string{}, map[string]interface{}{"description": "The description text."}),
	}
}

type routeFeature struct {
	Name  string
	Lines []string
	Facts func(op []string) []fact
}

func c17RouteFeatures() []routeFeature {
	kv := func(name string, lines []string, m map[string]interface{}) routeFeature {
		return routeFeature{Name: name, Lines: lines, Facts: func(op []string) []fact {
			var out []fact
			keys := make([]string, 0, len(m))
			for k := range m {
				keys = append(keys, k)
			}
			sort.Strings(keys)
			for _, k := range keys {
				out = append(out, fact{Path: append(append([]string{}, op...), strings.Split(k, "|")...), Want: m[k], What: "route " + name + " " + k})
			}
			return out
		}}
	}
	return []routeFeature{
		kv("bare", nil, nil),
		kv("consumes", []string{"Consumes:", "- application/json", "- application/xml"}, map[string]interface{}{"consumes": []interface{}{"application/json", "application/xml"}}),
		kv("produces", []string{"Produces:", "- application/json", "- text/plain"}, map[string]interface{}{"produces": []interface{}{"application/json", "text/plain"}}),
		kv("schemes", []string{"Schemes: http, https"}, map[string]interface{}{"schemes": []interface{}{"http", "https"}}),
		kv("deprecated", []string{"Deprecated: true"}, map[string]interface{}{"deprecated": true}),
		kv("security", []string{"Security:", "api_key:", "oauth: read, write"}, map[string]interface{}{"security": []interface{}{map[string]interface{}{"api_key": []interface{}{}}, map[string]interface{}{"oauth": []interface{}{"read", "write"}}}}),
		// requirement lists of every length up to 3 with 0-2 scopes per line, lines with scopes before and after
		// lines with fewer scopes
		kv("security: scopes then fewer scopes then none", []string{"Security:", "oauth: read, write", "partner: submit", "api_key:"}, map[string]interface{}{"security": []interface{}{map[string]interface{}{"oauth": []interface{}{"read", "write"}}, map[string]interface{}{"partner": []interface{}{"submit"}}, map[string]interface{}{"api_key": []interface{}{}}}}),
		kv("security: one scope twice", []string{"Security:", "oauth: read", "partner: submit"}, map[string]interface{}{"security": []interface{}{map[string]interface{}{"oauth": []interface{}{"read"}}, map[string]interface{}{"partner": []interface{}{"submit"}}}}),
		kv("security: two scopes twice", []string{"Security:", "partner: submit, review", "oauth: read, write"}, map[string]interface{}{"security": []interface{}{map[string]interface{}{"partner": []interface{}{"submit", "review"}}, map[string]interface{}{"oauth": []interface{}{"read", "write"}}}}),
		kv("security: single line without scopes", []string{"Security:", "api_key:"}, map[string]interface{}{"security": []interface{}{map[string]interface{}{"api_key": []interface{}{}}}}),
		kv("responses", []string{"Responses:", "default: genericError", "200: someResponse", "422: validationError"}, map[string]interface{}{
			"responses|default|$ref": "#/responses/genericError", "responses|200|$ref": "#/responses/someResponse", "responses|422|$ref": "#/responses/validationError"}),
		kv("responses-body", []string{"Responses:", "200: body:someModel", "201: description: created fine"}, map[string]interface{}{
			"responses|200|schema|$ref": "#/definitions/someModel", "responses|201|description": "created fine"}),
		kv("extensions", []string{"Extensions:", "x-some-flag: true", "x-some-list:", "  - item1", "  - item2"}, map[string]interface{}{"x-some-flag": true, "x-some-list": []interface{}{"item1", "item2"}}),
		kv("inline-parameters", []string{"Parameters:", "+ name: limit", "  in: query", "  description: how many", "  required: true", "  type: integer", "  min: 1", "  max: 50", "+ name: tag", "  in: query", "  type: string", "  enum: a,b"}, map[string]interface{}{
			"parameters|name=limit|name": "limit", "parameters|name=limit|in": "query", "parameters|name=limit|required": true, "parameters|name=limit|type": "integer", "parameters|name=limit|minimum": 1.0, "parameters|name=limit|maximum": 50.0, "parameters|name=tag|name": "tag", "parameters|name=tag|enum": []interface{}{"a", "b"}}),
		kv("summary+description", nil, map[string]interface{}{"summary": "Summary line of the route.", "description": "Longer description\nover two lines."}),
	}
}

// genRouteProgram builds one package with a route and the given feature.
func genRouteProgram(c *xplore.Ctx, idx *int) c17Program {
	methods := []string{"GET", "POST", "PUT", "PATCH", "DELETE", "HEAD", "OPTIONS"}
	paths := []string{"/things", "/things/{id}", "/things/{id}/sub", "/"}
	tagsets := [][]string{{"t1"}, {}, {"t1", "t2"}}
	feats := c17RouteFeatures()
	m := methods[c.Choose(len(methods), "method")]
	p := paths[c.Choose(len(paths), "path")]
	tg := tagsets[c.Choose(len(tagsets), "tags")]
	ft := feats[c.Choose(len(feats), "feature")]
	*idx++
	pkg := fmt.Sprintf("r%04d", *idx)
	id := "op" + pkg
	full := "/" + pkg + p
	full = strings.TrimSuffix(full, "/")
	if p == "/" {
		full = "/" + pkg + "/"
	}
	lines := []string{fmt.Sprintf("swagger:route %s %s %s %s", m, full, strings.Join(tg, " "), id)}
	lines[0] = strings.Join(strings.Fields(lines[0]), " ")
	lines = append(lines, "", "Summary line of the route.", "", "Longer description", "over two lines.", "")
	lines = append(lines, ft.Lines...)
	hasResponses := false
	for _, l := range ft.Lines {
		if l == "Responses:" {
			hasResponses = true
		}
	}
	if !hasResponses {
		lines = append(lines, "", "Responses:", "default: genericError")
	}
	src := "package " + pkg + "\n\n" + indentComment(lines) + "func Handler() {}\n"
	if strings.Contains(p, "{id}") {
		src += "\n// Params" + pkg + " holds the path parameter.\n//\n// swagger:parameters " + id + "\ntype Params" + pkg + " struct {\n\t// the id\n\t//\n\t// in: path\n\t// required: true\n\tID string `json:\"id\"`\n}\n"
	}
	op := []string{"paths", full, strings.ToLower(m)}
	facts := []fact{{Path: append(append([]string{}, op...), "operationId"), Want: id, What: "operationId"}}
	if len(tg) > 0 {
		var tl []interface{}
		for _, t := range tg {
			tl = append(tl, t)
		}
		facts = append(facts, fact{Path: append(append([]string{}, op...), "tags"), Want: tl, What: "tags"})
	}
	facts = append(facts, ft.Facts(op)...)
	return c17Program{Name: fmt.Sprintf("route %s %s tags=%d feature=%s", m, p, len(tg), ft.Name), Class: "route:" + ft.Name, Pkg: pkg, Source: src, Facts: facts}
}

func c17Programs(tier string) []c17Program {
	idx := 0
	bound := 1
	if tier == "thorough" {
		bound = 2
	}
	out, _ := xplore.Collect(xplore.Options{MaxDeviations: bound}, func(c *xplore.Ctx) c17Program { return genRouteProgram(c, &idx) })
	// parameters structs: one field per program
	for i, pf := range c17ParamFields() {
		pkg := fmt.Sprintf("p%04d", i)
		id := "op" + pkg
		path := "/" + pkg + "/items"
		if pf.In == "path" {
			path += "/{" + pf.Name + "}"
		}
		lines := []string{"The description text.", ""}
		lines = append(lines, pf.Lines...)
		lines = append(lines, "in: "+pf.In)
		imp := ""
		if strings.Contains(pf.Go, "strfmt.") {
			imp = "import \"github.com/go-openapi/strfmt\"\n\n"
		}
		var fieldDoc strings.Builder
		for _, l := range lines {
			if l == "" {
				fieldDoc.WriteString("\t//\n")
			} else {
				fieldDoc.WriteString("\t// " + l + "\n")
			}
		}
		src := "package " + pkg + "\n\n" + imp +
			indentComment([]string{fmt.Sprintf("swagger:route GET %s %s", path, id), "", "Lists items.", "", "Responses:", "default: description: fine"}) + "func Handler() {}\n\n" +
			indentComment([]string{"Params" + pkg + " are the parameters.", "", "swagger:parameters " + id}) + "type Params" + pkg + " struct {\n" +
			fieldDoc.String() + "\tF " + pf.Go + " `json:\"" + pf.Name + "\"`\n}\n"
		base := []string{"paths", path, "get", "parameters", "0"}
		facts := []fact{{Path: append(append([]string{}, base...), "name"), Want: pf.Name, What: "parameter name"}, {Path: append(append([]string{}, base...), "in"), Want: pf.In, What: "parameter in"}}
		facts = append(facts, pf.Facts(base)...)
		out = append(out, c17Program{Name: "parameters field " + pf.Name, Class: "parameters:" + pf.Name, Pkg: pkg, Source: src, Facts: facts})
	}
	// responses, models, operation with YAML, meta are fixed programs
	out = append(out, c17FixedPrograms()...)
	return out
}

func fixFieldComments(src string) string {
	// indentComment produced "//" lines at column 0 inside the struct: indent them
	lines := strings.Split(src, "\n")
	in := false
	for i, l := range lines {
		if strings.HasPrefix(l, "type Params") {
			in = true
			continue
		}
		if in && l == "}" {
			in = false
		}
		if in && strings.HasPrefix(l, "//") {
			lines[i] = "\t" + l
		}
	}
	return strings.Join(lines, "\n")
}

func c17FixedPrograms() []c17Program {
	var out []c17Program
	// response struct with header and body
	out = append(out, c17Program{Name: "response struct", Class: "response", Pkg: "f0001", Source: `package f0001

// Body0001 is a model.
//
// swagger:model body0001
type Body0001 struct {
	// the id
	//
	// required: true
	// minimum: 1
	ID int64 ` + "`json:\"id\"`" + `
	// the name
	//
	// max length: 12
	Name string ` + "`json:\"name,omitempty\"`" + `
}

// Resp0001 is a response.
//
// swagger:response resp0001
type Resp0001 struct {
	// Rate limit.
	//
	// in: header
	// minimum: 1
	XRate int32 ` + "`json:\"X-Rate\"`" + `
	// in: body
	Payload *Body0001 ` + "`json:\"payload\"`" + `
}
`, Facts: []fact{
		{Path: []string{"responses", "resp0001", "description"}, Want: "Resp0001 is a response.", What: "response description"},
		{Path: []string{"responses", "resp0001", "headers", "X-Rate", "type"}, Want: "integer", What: "response header type"},
		{Path: []string{"responses", "resp0001", "headers", "X-Rate", "format"}, Want: "int32", What: "response header format"},
		{Path: []string{"responses", "resp0001", "headers", "X-Rate", "minimum"}, Want: 1.0, What: "response header minimum"},
		{Path: []string{"responses", "resp0001", "schema", "$ref"}, Want: "#/definitions/body0001", What: "response body ref"},
		{Path: []string{"definitions", "body0001", "required"}, Want: []interface{}{"id"}, What: "model required"},
		{Path: []string{"definitions", "body0001", "properties", "id", "minimum"}, Want: 1.0, What: "model property minimum"},
		{Path: []string{"definitions", "body0001", "properties", "name", "maxLength"}, Want: 12.0, What: "model property maxLength"},
	}})
	// a response whose body comes first and whose headers rely on the default location; slice header
	out = append(out, c17Program{Name: "response: body first, headers without in:", Class: "response-body-first", Pkg: "f0011", Source: `package f0011

// Item0011 is a model.
//
// swagger:model item0011
type Item0011 struct {
	ID int64 ` + "`json:\"id\"`" + `
}

// Resp0011 is a response.
//
// swagger:response resp0011
type Resp0011 struct {
	// in: body
	Payload *Item0011 ` + "`json:\"payload\"`" + `
	// The total.
	//
	// maximum: 50
	XTotal int64 ` + "`json:\"X-Total\"`" + `
	// Tags.
	XTags []string ` + "`json:\"X-Tags\"`" + `
}
`, Facts: []fact{
		{Path: []string{"responses", "resp0011", "schema", "$ref"}, Want: "#/definitions/item0011", What: "response body ref (body first)"},
		{Path: []string{"responses", "resp0011", "headers", "X-Total", "type"}, Want: "integer", What: "header after the body: type"},
		{Path: []string{"responses", "resp0011", "headers", "X-Total", "maximum"}, Want: 50.0, What: "header after the body: maximum"},
		{Path: []string{"responses", "resp0011", "headers", "X-Tags", "type"}, Want: "array", What: "slice header after the body: type"},
		{Path: []string{"responses", "resp0011", "headers", "X-Tags", "items", "type"}, Want: "string", What: "slice header after the body: items"},
		{Path: []string{"responses", "resp0011", "schema", "type"}, Want: nil, What: "response body schema stays a bare $ref"},
	}})
	// a response and a model sharing one name, both used in a route's Responses section
	out = append(out, c17Program{Name: "response and model with the same name", Class: "response-model-same-name", Pkg: "f0012", Source: `package f0012

// Pet0012 is a model.
//
// swagger:model pet0012
type Pet0012 struct {
	Name string ` + "`json:\"name\"`" + `
}

// PetResp0012 is a response that carries the model of the same name.
//
// swagger:response pet0012
type PetResp0012 struct {
	// in: body
	Body *Pet0012
}

// swagger:route GET /f0012/pets pets listPets0012
//
// Lists.
//
// Responses:
//   200: pet0012
//   404: response:pet0012
//   422: body:pet0012
func Handler() {}
`, Facts: []fact{
		{Path: []string{"paths", "/f0012/pets", "get", "responses", "200", "$ref"}, Want: "#/responses/pet0012", What: "200: <name> resolves to the response of that name"},
		{Path: []string{"paths", "/f0012/pets", "get", "responses", "404", "$ref"}, Want: "#/responses/pet0012", What: "404: response:<name>"},
		{Path: []string{"paths", "/f0012/pets", "get", "responses", "422", "schema", "$ref"}, Want: "#/definitions/pet0012", What: "422: body:<name> is the model"},
		{Path: []string{"responses", "pet0012", "schema", "$ref"}, Want: "#/definitions/pet0012", What: "response body ref"},
	}})
	// swagger:operation with YAML
	out = append(out, c17Program{Name: "operation with YAML body", Class: "operation-yaml", Pkg: "f0002", Source: `package f0002

// swagger:operation PUT /f0002/pets/{id} pets updatePet0002
//
// Updates the pet.
//
// Long description.
//
// ---
// consumes:
//   - "application/json"
// produces:
//   - "application/xml"
// parameters:
//   - name: id
//     in: path
//     required: true
//     type: integer
//     format: int32
//   - name: limit
//     in: query
//     type: integer
//     maximum: 100
// responses:
//   "200":
//     description: fine
//     headers:
//       x-next:
//         type: string
//   default:
//     description: bad
// deprecated: true
func Handler() {}
`, Facts: []fact{
		{Path: []string{"paths", "/f0002/pets/{id}", "put", "operationId"}, Want: "updatePet0002", What: "operationId"},
		{Path: []string{"paths", "/f0002/pets/{id}", "put", "tags"}, Want: []interface{}{"pets"}, What: "tags"},
		{Path: []string{"paths", "/f0002/pets/{id}", "put", "summary"}, Want: "Updates the pet.", What: "summary"},
		{Path: []string{"paths", "/f0002/pets/{id}", "put", "consumes"}, Want: []interface{}{"application/json"}, What: "consumes"},
		{Path: []string{"paths", "/f0002/pets/{id}", "put", "produces"}, Want: []interface{}{"application/xml"}, What: "produces"},
		{Path: []string{"paths", "/f0002/pets/{id}", "put", "deprecated"}, Want: true, What: "deprecated"},
		{Path: []string{"paths", "/f0002/pets/{id}", "put", "parameters", "0", "name"}, Want: "id", What: "param name"},
		{Path: []string{"paths", "/f0002/pets/{id}", "put", "parameters", "0", "format"}, Want: "int32", What: "param format"},
		{Path: []string{"paths", "/f0002/pets/{id}", "put", "parameters", "1", "maximum"}, Want: 100.0, What: "param maximum"},
		{Path: []string{"paths", "/f0002/pets/{id}", "put", "responses", "200", "headers", "x-next", "type"}, Want: "string", What: "response header"},
		{Path: []string{"paths", "/f0002/pets/{id}", "put", "responses", "default", "description"}, Want: "bad", What: "default response"},
	}})
	// models: allOf, strfmt, enum, ignore
	out = append(out, c17Program{Name: "models allOf/strfmt/ignore", Class: "models", Pkg: "f0003", Source: `package f0003

// Base0003 is the base.
//
// swagger:model base0003
type Base0003 struct {
	// swagger:strfmt uuid
	ID string ` + "`json:\"id\"`" + `
}

// Mac0003 is a custom string format.
//
// swagger:strfmt mac0003
type Mac0003 string

// Derived0003 composes.
//
// swagger:model derived0003
type Derived0003 struct {
	// swagger:allOf
	Base0003
	// the mac
	Mac Mac0003 ` + "`json:\"mac\"`" + `
	// swagger:ignore
	Hidden string ` + "`json:\"hidden\"`" + `
	// unique: true
	// min items: 1
	Tags []string ` + "`json:\"tags\"`" + `
	// read only: true
	Ro string ` + "`json:\"ro\"`" + `
	// the size
	//
	// required: true
	// minimum: 1
	Size int32 ` + "`json:\"size\"`" + `
}
`, Facts: []fact{
		{Path: []string{"definitions", "derived0003", "allOf", "1", "required"}, Want: []interface{}{"size"}, What: "required own field of an allOf composition is required in the member that declares it"},
		{Path: []string{"definitions", "derived0003", "required"}, Want: nil, What: "no required list on the composition itself"},
		{Path: []string{"definitions", "derived0003", "allOf", "1", "properties", "size", "minimum"}, Want: 1.0, What: "own field minimum"},
		{Path: []string{"definitions", "base0003", "properties", "id", "format"}, Want: "uuid", What: "strfmt on field"},
		{Path: []string{"definitions", "derived0003", "allOf", "0", "$ref"}, Want: "#/definitions/base0003", What: "allOf ref"},
		{Path: []string{"definitions", "derived0003", "allOf", "1", "properties", "mac", "format"}, Want: "mac0003", What: "custom strfmt type"},
		{Path: []string{"definitions", "derived0003", "allOf", "1", "properties", "hidden"}, Want: nil, What: "ignored field absent"},
		{Path: []string{"definitions", "derived0003", "allOf", "1", "properties", "tags", "uniqueItems"}, Want: true, What: "unique"},
		{Path: []string{"definitions", "derived0003", "allOf", "1", "properties", "tags", "minItems"}, Want: 1.0, What: "min items"},
		{Path: []string{"definitions", "derived0003", "allOf", "1", "properties", "ro", "readOnly"}, Want: true, What: "read only"},
	}})
	return out
}

// ---------------------------------------------------------------- A2: robustness

func c17HostileLines() []scalar {
	long := strings.Repeat("x", 65536)
	h := []scalar{
		{"swagger:", "swagger:"}, {"swagger:route", "swagger:route"}, {"swagger:route GET", "swagger:route GET"}, {"swagger:route GET /x", "swagger:route GET /x"}, {"swagger:route lowercase", "swagger:route get /x tag id"},
		{"swagger:route bad method", "swagger:route FETCH /x id"}, {"swagger:operation", "swagger:operation"}, {"swagger:operation GET", "swagger:operation GET"}, {"swagger:operation GET /x", "swagger:operation GET /x"},
		{"swagger:parameters", "swagger:parameters"}, {"swagger:response", "swagger:response"}, {"swagger:model", "swagger:model"}, {"swagger:model two names", "swagger:model a b"}, {"swagger:allOf", "swagger:allOf"},
		{"swagger:allOf name", "swagger:allOf x.y"}, {"swagger:strfmt", "swagger:strfmt"}, {"swagger:enum", "swagger:enum"}, {"swagger:enum X", "swagger:enum X"}, {"swagger:meta", "swagger:meta"}, {"swagger:ignore", "swagger:ignore"},
		{"swagger:discriminator", "swagger:discriminator"}, {"swagger:discriminated", "swagger:discriminated a b"}, {"swagger:name", "swagger:name"}, {"swagger:name x", "swagger:name x"}, {"swagger:type", "swagger:type"}, {"swagger:type weird", "swagger:type [][]"},
		{"swagger:file", "swagger:file"}, {"swagger:default", "swagger:default"}, {"swagger:alias", "swagger:alias"}, {"swagger:unknown", "swagger:bogus thing"},
		{"Responses:", "Responses:"}, {"Responses: bad", "Responses:\n// 200:"}, {"Responses: body", "Responses:\n// 200: body:"}, {"Responses: ref[]", "Responses:\n// 200: body:[]"}, {"Parameters:", "Parameters:"}, {"Parameters: +", "Parameters:\n// +"},
		{"Parameters: + name", "Parameters:\n// + name:"}, {"Parameters: no in", "Parameters:\n// + name: p\n//   type: array"}, {"Security:", "Security:"}, {"Security: bad", "Security:\n// : x"}, {"Extensions:", "Extensions:"}, {"Extensions: bad", "Extensions:\n// x-a: [\n// - {"},
		{"Extensions: not-x", "Extensions:\n// notx: 1"}, {"Consumes:", "Consumes:"}, {"Schemes:", "Schemes:"}, {"Schemes: ,", "Schemes: ,,"}, {"yaml ---", "---"}, {"yaml --- bad", "---\n// a: [\n//  b"}, {"yaml --- tab", "---\n// \tparameters: x"},
		{"yaml --- scalar", "---\n// just text"}, {"items bad", "items.items.maximum: x"}, {"items deep", "items.items.items.items.items.minimum: 1"}, {"items.", "items."}, {"in: nowhere", "in: nowhere"}, {"in:", "in:"}, {"in: body", "in: body"},
		{"enum [", "Enum: ["}, {"enum json", `enum: ["a", 1, {`}, {"default {", "Default: {"}, {"default json", `default: {"a": [1,`}, {"example {", "example: {"}, {"maximum abc", "maximum: abc"}, {"maximum <", "maximum: <"}, {"minimum empty", "minimum:"},
		{"max length -1", "max length: -1"}, {"max length big", "max length: 99999999999999999999"}, {"pattern [", "pattern: ["}, {"collection format", "collection format:"}, {"required maybe", "required: maybe"}, {"unique x", "unique: x"},
		{"multiple of 0", "multiple of: 0"}, {"read only x", "read only: x"}, {"discriminator x", "discriminator: x"}, {"tab", "\tin: query"}, {"cr", "in: query\r"}, {"nbsp", "in: query"}, {"unicode", "swagger:model 日本"},
		{"version:", "Version:"}, {"license:", "License:"}, {"contact:", "Contact: <"}, {"host:", "Host: :::"}, {"basepath:", "BasePath:"}, {"securitydefs", "SecurityDefinitions:\n// a:\n//   type"}, {"infoext", "InfoExtensions:\n// x"}, {"tos", "Terms Of Service:"},
		{"long line", long}, {"long annotation", "swagger:model " + long[:5000]},
	}
	return h
}

var c17Positions = []string{"package-doc", "file-header", "type-doc(model)", "type-doc(parameters)", "type-doc(response)", "field-doc(model)", "field-doc(parameters)", "func-doc(route)", "func-doc(operation-yaml)", "const-doc", "var-doc", "interface-method-doc", "inside-func-body", "trailing-line-comment", "detached-comment"}

// c17Carrier renders the robustness carrier with hostile line(s) at a position.
func c17Carrier(pkg, pos, hostile string) string {
	h := func(p, indent string) string {
		if p != pos {
			return ""
		}
		var b strings.Builder
		for _, l := range strings.Split(hostile, "\n") {
			l = strings.TrimPrefix(strings.TrimPrefix(l, "// "), "//")
			b.WriteString(indent + "// " + l + "\n")
		}
		return b.String()
	}
	id := "op" + pkg
	var b strings.Builder
	b.WriteString(h("file-header", "") + "\n")
	b.WriteString("// Package " + pkg + " API.\n//\n// The purpose.\n//\n" + h("package-doc", "") + "//\tVersion: 0.0.1\n//\n// swagger:meta\npackage " + pkg + "\n\n")
	b.WriteString(h("detached-comment", "") + "\n")
	b.WriteString("// Model" + pkg + " is a model.\n//\n" + h("type-doc(model)", "") + "// swagger:model model" + pkg + "\ntype Model" + pkg + " struct {\n\t// the id\n\t//\n" + h("field-doc(model)", "\t") + "\t// minimum: 1\n\tID int64 `json:\"id\"`\n\tName string `json:\"name\"` " + strings.TrimSuffix(strings.TrimPrefix(h("trailing-line-comment", ""), ""), "\n") + "\n}\n\n")
	b.WriteString("// Params" + pkg + " are parameters.\n//\n" + h("type-doc(parameters)", "") + "// swagger:parameters " + id + "\ntype Params" + pkg + " struct {\n\t// the limit\n\t//\n" + h("field-doc(parameters)", "\t") + "\t// in: query\n\tLimit int32 `json:\"limit\"`\n}\n\n")
	b.WriteString("// Resp" + pkg + " is a response.\n//\n" + h("type-doc(response)", "") + "// swagger:response resp" + pkg + "\ntype Resp" + pkg + " struct {\n\t// in: body\n\tBody Model" + pkg + "\n}\n\n")
	b.WriteString("// swagger:route GET /" + pkg + "/things things " + id + "\n//\n// Lists things.\n//\n" + h("func-doc(route)", "") + "// Responses:\n// 200: resp" + pkg + "\nfunc Handler() {\n" + h("inside-func-body", "\t") + "}\n\n")
	b.WriteString("// swagger:operation POST /" + pkg + "/things things create" + id + "\n//\n// Creates.\n//\n// ---\n// responses:\n//   \"200\":\n//     description: fine\n" + h("func-doc(operation-yaml)", "") + "func Create() {}\n\n")
	b.WriteString(h("const-doc", "") + "const C = 1\n\n" + h("var-doc", "") + "var V = 2\n\n")
	b.WriteString("// Iface" + pkg + " is an interface model.\n//\n// swagger:model iface" + pkg + "\ntype Iface" + pkg + " interface {\n\t// the name\n\t//\n" + h("interface-method-doc", "\t") + "\t// swagger:name thename\n\tName() string\n}\n")
	return b.String()
}

// ---------------------------------------------------------------- running the scanner

type scanOutcome struct {
	Doc     J
	Err     string
	Crashed bool
	Timeout bool
	Raw     string
}

func runScanner(dir string, input string, pkgs ...string) scanOutcome {
	out := filepath.Join(dir, fmt.Sprintf("scan-%d.json", time.Now().UnixNano()))
	defer os.Remove(out)
	args := []string{"generate", "spec", "-q", "-m", "-o", out}
	if input != "" {
		args = append(args, "-i", input)
	}
	args = append(args, pkgs...)
	res := runCmd(dir, 3*time.Minute, nil, SwaggerBin(), args...)
	if res.TimedOut {
		return scanOutcome{Timeout: true, Raw: lastLines(res.Out, 5)}
	}
	if res.Err != nil {
		crashed := strings.Contains(res.Out, "panic:") || strings.Contains(res.Out, "goroutine ") || strings.Contains(res.Out, "fatal error:")
		return scanOutcome{Err: lastLines(res.Out, 4), Crashed: crashed, Raw: trunc(res.Out, 3000)}
	}
	b, err := os.ReadFile(out)
	if err != nil {
		return scanOutcome{Err: "no output file: " + err.Error()}
	}
	var doc J
	if err := json.Unmarshal(b, &doc); err != nil {
		return scanOutcome{Err: "output is not JSON: " + err.Error()}
	}
	return scanOutcome{Doc: doc}
}

func lookup(doc interface{}, path []string) (interface{}, bool) {
	cur := doc
	for _, p := range path {
		switch t := cur.(type) {
		case map[string]interface{}:
			v, ok := t[p]
			if !ok {
				return nil, false
			}
			cur = v
		case []interface{}:
			if strings.HasPrefix(p, "name=") { // the element whose "name" is ...
				found := false
				for _, e := range t {
					if m, ok := e.(map[string]interface{}); ok && m["name"] == p[len("name="):] {
						cur, found = e, true
						break
					}
				}
				if !found {
					return nil, false
				}
				continue
			}
			var i int
			if _, err := fmt.Sscanf(p, "%d", &i); err != nil || i >= len(t) {
				return nil, false
			}
			cur = t[i]
		default:
			return nil, false
		}
	}
	return cur, true
}

type c17Case struct {
	Kind     string      `json:"kind"`
	Program  *c17Program `json:"program,omitempty"`
	Position string      `json:"position,omitempty"`
	Hostile  string      `json:"hostile,omitempty"`
	Text     string      `json:"text,omitempty"`
	Source   string      `json:"source,omitempty"`
}

func writePkg(root, pkg, src string) {
	d := filepath.Join(root, pkg)
	must(os.MkdirAll(d, 0o755))
	must(os.WriteFile(filepath.Join(d, "code.go"), []byte(src), 0o644))
}

func RunC17(tier, replay string) int {
	quietLogs()
	r := evid.New("C17", tier)
	r.Rule = "A1 faithfulness: annotation programs written from the documented grammar - swagger:route (7 methods x 4 path shapes x 3 tag sets x 15 sections/features, <=1 (quick) / <=2 (thorough) dimensions deviating), swagger:parameters structs with one field out of 19 (each location, each validation tag, items.* to depth 2), swagger:response, swagger:operation with a YAML body, swagger:model / allOf / strfmt / ignore; each program carries the facts it wrote (method, path, id, tags, in, name, code, constraints) and the scanned document must contain them and pass validate.Spec. A2 robustness: 90 hostile comment lines (every truncation of every annotation keyword and section header, broken YAML/JSON, bad numbers, tabs, CR, non-ASCII spaces, 64 KB lines) at 15 comment positions of a carrier program (pairs of lines in the thorough tier); the real `swagger generate spec` must not crash or hang (whether a returned document validates is recorded only: hostile comments are outside the documented grammar). distinct = program or (hostile line, position); non-trivial = scanner returned a document and it was checked"
	r.Assume = []string{"the real swagger binary is run as a subprocess: a crash is a non-zero exit with a Go panic / fatal error trace, a hang is >3 minutes (typical 2 s)", "expected facts come from the grammar term that printed the annotation"}
	s := NewScratch("C17")
	defer s.Close()

	if replay != "" {
		r.Replay = true
		var rep struct {
			Case c17Case `json:"case"`
		}
		if err := readJSONFile(replay, &rep); err != nil {
			fmt.Fprintln(os.Stderr, err)
			return 2
		}
		root := filepath.Join(s.Dir, "replay")
		src := rep.Case.Source
		pkg := "x0000"
		if rep.Case.Program != nil {
			src, pkg = rep.Case.Program.Source, rep.Case.Program.Pkg
		}
		writePkg(root, pkg, src)
		o := runScanner(root, "", "./...")
		fmt.Printf("crashed=%v timeout=%v err=%q\n", o.Crashed, o.Timeout, o.Err)
		if rep.Case.Program != nil && o.Doc != nil {
			c17CheckFacts(r, *rep.Case.Program, o.Doc)
		}
		if o.Crashed || o.Timeout {
			r.Violate(evid.Violation{Signature: "replay", What: "still crashes: " + o.Err, Case: rep.Case})
		}
		if o.Doc != nil {
			if err := validSpec(o.Doc); err != nil {
				r.Violate(evid.Violation{Signature: "replay-invalid", What: "still invalid: " + err.Error(), Case: rep.Case})
			}
		}
		return r.Finish()
	}

	// ---------------- A1
	progs := c17Programs(tier)
	r.Extra["A1_programs"] = len(progs)
	per := 40
	type group struct{ lo, hi int }
	var groups []group
	for lo := 0; lo < len(progs); lo += per {
		hi := lo + per
		if hi > len(progs) {
			hi = len(progs)
		}
		groups = append(groups, group{lo, hi})
	}
	// supporting declarations referenced by route features (responses / model)
	support := `// Package support API.
//
// The support package carries the meta data of every A1 run.
//
//	Version: 1.0.0
//
// swagger:meta
package support

// GenericError is an error.
//
// swagger:response genericError
type GenericError struct {
	// in: body
	Body struct {
		Message string ` + "`json:\"message\"`" + `
	}
}

// SomeResponse is a response.
//
// swagger:response someResponse
type SomeResponse struct {
	// in: body
	Body *SomeModel
}

// ValidationError is a response.
//
// swagger:response validationError
type ValidationError struct {
	// in: body
	Body struct {
		Field string ` + "`json:\"field\"`" + `
	}
}

// SomeModel is a model.
//
// swagger:model someModel
type SomeModel struct {
	ID int64 ` + "`json:\"id\"`" + `
}
`
	parallel(len(groups), runtime.NumCPU(), func(_, gi int) {
		g := groups[gi]
		root := filepath.Join(s.Dir, fmt.Sprintf("a1g%03d", gi))
		must(os.MkdirAll(root, 0o755))
		writePkg(root, "support", support)
		for _, p := range progs[g.lo:g.hi] {
			writePkg(root, p.Pkg, p.Source)
		}
		o := runScanner(root, "", "./...")
		if o.Doc == nil {
			// isolate: run each program alone (with support)
			for _, p := range progs[g.lo:g.hi] {
				one := filepath.Join(s.Dir, fmt.Sprintf("a1s%s", p.Pkg))
				must(os.MkdirAll(one, 0o755))
				writePkg(one, "support", support)
				writePkg(one, p.Pkg, p.Source)
				oo := runScanner(one, "", "./...")
				c17Judge(r, p, oo)
				_ = os.RemoveAll(one)
			}
			return
		}
		// whole-document validity, then per-program facts
		if err := validSpec(o.Doc); err != nil {
			// find which program makes it invalid by scanning alone
			for _, p := range progs[g.lo:g.hi] {
				one := filepath.Join(s.Dir, fmt.Sprintf("a1v%s", p.Pkg))
				must(os.MkdirAll(one, 0o755))
				writePkg(one, "support", support)
				writePkg(one, p.Pkg, p.Source)
				oo := runScanner(one, "", "./...")
				c17Judge(r, p, oo)
				_ = os.RemoveAll(one)
			}
			return
		}
		for _, p := range progs[g.lo:g.hi] {
			c17CheckFacts(r, p, o.Doc)
		}
	})

	// ---------------- A1 with an input spec to merge into
	{
		root := filepath.Join(s.Dir, "merge")
		must(os.MkdirAll(root, 0o755))
		p := c17FixedPrograms()[1] // operation-yaml on /f0002/pets/{id} PUT
		writePkg(root, p.Pkg, p.Source)
		input := J{"swagger": "2.0", "info": J{"title": "given", "version": "9"}, "host": "given.example.com", "paths": J{
			"/f0002/pets/{id}": J{"get": J{"operationId": "givenGet", "parameters": A{J{"in": "path", "name": "id", "required": true, "type": "integer"}}, "responses": J{"200": J{"description": "given"}}}},
			"/given":           J{"get": J{"operationId": "givenOther", "responses": J{"200": J{"description": "ok"}}}}},
			"definitions": J{"Given": J{"type": "object", "properties": J{"a": J{"type": "string"}}}}}
		ip := filepath.Join(root, "input.json")
		must(os.WriteFile(ip, prettyJSON(input), 0o644))
		o := runScanner(root, ip, "./...")
		mp := c17Program{Name: "merge with --input", Class: "merge", Pkg: p.Pkg, Source: p.Source, Facts: append(append([]fact{}, p.Facts...),
			fact{Path: []string{"info", "title"}, Want: "given", What: "input info kept"},
			fact{Path: []string{"host"}, Want: "given.example.com", What: "input host kept"},
			fact{Path: []string{"paths", "/given", "get", "operationId"}, Want: "givenOther", What: "input path kept"},
			fact{Path: []string{"paths", "/f0002/pets/{id}", "get", "operationId"}, Want: "givenGet", What: "input operation on a scanned path kept"},
			fact{Path: []string{"definitions", "Given", "properties", "a", "type"}, Want: "string", What: "input definition kept"})}
		c17Judge(r, mp, o)
	}

	// ---------------- A1: swagger:parameters aimed at the operations of an input spec (no swagger:route)
	{
		root := filepath.Join(s.Dir, "merge2")
		must(os.MkdirAll(root, 0o755))
		methods := []string{"get", "post", "put", "delete", "patch", "head", "options"} // every method of a path item
		item := J{}
		var src strings.Builder
		src.WriteString("package m0001\n")
		var facts []fact
		// one more parameters struct shared by the operations of every method
		{
			var ids []string
			for _, m := range methods {
				ids = append(ids, "given"+strings.ToUpper(m[:1])+m[1:])
			}
			src.WriteString("\n// Shared are parameters of every operation.\n//\n// swagger:parameters " + strings.Join(ids, " ") + "\ntype Shared struct {\n\t// the trace id\n\t//\n\t// in: header\n\t// min length: 3\n\tTrace string `json:\"X-Trace\"`\n}\n")
			for _, m := range methods {
				facts = append(facts,
					fact{Path: []string{"paths", "/multi", m, "parameters", "name=X-Trace", "in"}, Want: "header", What: "shared parameters set attached to input operation " + m},
					fact{Path: []string{"paths", "/multi", m, "parameters", "name=X-Trace", "minLength"}, Want: 3.0, What: "shared parameter constraint on input operation " + m})
			}
		}
		for _, m := range methods {
			id := "given" + strings.ToUpper(m[:1]) + m[1:]
			item[m] = J{"operationId": id, "responses": J{"200": J{"description": "ok"}}}
			src.WriteString("\n// P" + id + " are the parameters of " + id + ".\n//\n// swagger:parameters " + id + "\ntype P" + id + " struct {\n\t// the filter\n\t//\n\t// in: query\n\t// max length: 9\n\tF" + m + " string `json:\"f" + m + "\"`\n}\n")
			facts = append(facts,
				fact{Path: []string{"paths", "/multi", m, "operationId"}, Want: id, What: "input operation " + m + " kept"},
				fact{Path: []string{"paths", "/multi", m, "parameters", "name=f" + m, "in"}, Want: "query", What: "parameters set attached to input operation " + m},
				fact{Path: []string{"paths", "/multi", m, "parameters", "name=f" + m, "maxLength"}, Want: 9.0, What: "parameter constraint on input operation " + m})
		}
		input := J{"swagger": "2.0", "info": J{"title": "given", "version": "9"}, "paths": J{"/multi": item}}
		writePkg(root, "m0001", src.String())
		ip := filepath.Join(root, "input.json")
		must(os.WriteFile(ip, prettyJSON(input), 0o644))
		o := runScanner(root, ip, "./...")
		c17Judge(r, c17Program{Name: "parameters sets aimed at every method of an input path item", Class: "merge-params", Pkg: "m0001", Source: src.String(), Facts: facts}, o)
	}

	// ---------------- A2
	hostile := c17HostileLines()
	type a2 struct {
		pos string
		h   scalar
		src string
		pkg string
	}
	var cases []a2
	n := 0
	for _, pos := range c17Positions {
		for _, h := range hostile {
			pkg := fmt.Sprintf("h%05d", n)
			n++
			cases = append(cases, a2{pos, h, c17Carrier(pkg, pos, h.S), pkg})
		}
	}
	if tier == "thorough" {
		// ordered pairs of hostile lines at the four positions the scanner parses most
		for _, pos := range []string{"func-doc(route)", "field-doc(parameters)", "type-doc(model)", "package-doc"} {
			for i := range hostile {
				for j := range hostile {
					if i == j || len(hostile[i].S) > 2000 || len(hostile[j].S) > 2000 {
						continue
					}
					pkg := fmt.Sprintf("h%05d", n)
					n++
					cases = append(cases, a2{pos, scalar{hostile[i].Name + " ; " + hostile[j].Name, hostile[i].S + "\n" + hostile[j].S}, c17Carrier(pkg, pos, hostile[i].S+"\n"+hostile[j].S), pkg})
				}
			}
		}
	}
	r.Extra["A2_cases"] = len(cases)
	r.Extra["bound_completed"] = "A1: one feature per program (pairs in thorough); A2: one hostile line per comment (ordered pairs at 4 positions in thorough)"
	var a2groups []group
	for lo := 0; lo < len(cases); lo += per {
		hi := lo + per
		if hi > len(cases) {
			hi = len(cases)
		}
		a2groups = append(a2groups, group{lo, hi})
	}
	judgeA2 := func(c a2, o scanOutcome) {
		cs := c17Case{Kind: "robustness", Position: c.pos, Hostile: c.h.Name, Text: trunc(c.h.S, 200), Source: c.src}
		key := "a2|" + c.pos + "|" + c.h.Name
		sample := map[string]string{"position": c.pos, "hostile": c.h.Name}
		switch {
		case o.Timeout:
			r.Violate(evid.Violation{Signature: "hang | " + c.pos + " | " + c.h.Name, What: fmt.Sprintf("generate spec does not return within 3 minutes with %q at %s", trunc(c.h.S, 60), c.pos), Case: cs})
			r.CaseKeyed(key, sample, true, "VIOLATION:hang")
		case o.Crashed:
			r.Violate(evid.Violation{Signature: "crash | " + crashSite(o.Raw), What: fmt.Sprintf("generate spec crashes with %q at %s: %s", trunc(c.h.S, 60), c.pos, firstPanicLine(o.Raw)), Case: cs, Observed: o.Raw})
			r.CaseKeyed(key, sample, true, "VIOLATION:crash")
		case o.Doc == nil:
			r.CaseKeyed(key, sample, false, "diagnostic-error")
		default:
			// hostile comments do not follow the documented grammar: only "never crashes" is demanded of them;
			// whether the returned document validates is recorded, not judged
			if err := validSpec(o.Doc); err != nil {
				r.Count("A2_documents_returned_that_do_not_validate(recorded, not a violation)", 1)
				r.CaseKeyed(key, sample, true, "invalid-document(recorded)")
			} else {
				r.CaseKeyed(key, sample, true, "valid-document")
			}
		}
	}
	parallel(len(a2groups), runtime.NumCPU(), func(_, gi int) {
		g := a2groups[gi]
		root := filepath.Join(s.Dir, fmt.Sprintf("a2g%04d", gi))
		must(os.MkdirAll(root, 0o755))
		for _, c := range cases[g.lo:g.hi] {
			writePkg(root, c.pkg, c.src)
		}
		o := runScanner(root, "", "./...")
		if o.Doc != nil {
			for _, c := range cases[g.lo:g.hi] {
				judgeA2(c, o)
			}
			_ = os.RemoveAll(root)
			return
		}
		// something in the group fails: judge each package alone
		for _, c := range cases[g.lo:g.hi] {
			oo := runScanner(root, "", "./"+c.pkg)
			judgeA2(c, oo)
		}
		_ = os.RemoveAll(root)
	})
	return r.Finish()
}

func crashSite(raw string) string {
	// first frame inside codescan
	lines := strings.Split(raw, "\n")
	for i, l := range lines {
		if strings.Contains(l, "/codescan/") && strings.Contains(l, ".go:") {
			f := strings.Fields(strings.TrimSpace(l))[0]
			if j := strings.LastIndex(f, ":"); j > 0 {
				f = f[:j]
			}
			fn := ""
			if i > 0 {
				fn = strings.TrimSpace(lines[i-1])
				if j := strings.LastIndex(fn, "("); j > 0 {
					fn = fn[:j]
				}
				if j := strings.LastIndex(fn, "/"); j >= 0 {
					fn = fn[j+1:]
				}
			}
			return filepath.Base(f) + ":" + fn
		}
	}
	return "unknown"
}

func firstPanicLine(raw string) string {
	for _, l := range strings.Split(raw, "\n") {
		if strings.HasPrefix(l, "panic:") || strings.HasPrefix(l, "fatal error:") {
			return l
		}
	}
	return firstLine(raw)
}

func c17Judge(r *evid.Run, p c17Program, o scanOutcome) {
	cs := c17Case{Kind: "faithfulness", Program: &p}
	key := "a1|" + p.Name
	sample := map[string]interface{}{"program": p.Name, "source": p.Source}
	switch {
	case o.Timeout:
		r.Violate(evid.Violation{Signature: "hang | " + p.Class, What: "generate spec hangs on program " + p.Name, Case: cs})
		r.CaseKeyed(key, sample, true, "VIOLATION:hang")
	case o.Crashed:
		r.Violate(evid.Violation{Signature: "crash | " + crashSite(o.Raw), What: fmt.Sprintf("generate spec crashes on program %s: %s", p.Name, firstPanicLine(o.Raw)), Case: cs, Observed: o.Raw})
		r.CaseKeyed(key, sample, true, "VIOLATION:crash")
	case o.Doc == nil:
		r.Count("A1_diagnostic_errors", 1)
		r.Note("A1 program %s refused: %s", p.Name, trunc(o.Err, 200))
		r.CaseKeyed(key, sample, false, "diagnostic-error")
	default:
		if err := validSpec(o.Doc); err != nil {
			r.Violate(evid.Violation{Signature: "invalid-document | " + p.Class, What: fmt.Sprintf("program %s: scanned document does not pass Swagger 2.0 validation: %v", p.Name, err), Case: cs})
			r.CaseKeyed(key, sample, true, "VIOLATION:invalid-document")
			return
		}
		c17CheckFacts(r, p, o.Doc)
	}
}

// factTolerated: spellings the documentation leaves open. Extension scalars are kept as written
// ("true" vs true), and the text after "description:" may keep its leading space.
func factTolerated(f fact, got interface{}) bool {
	last := f.Path[len(f.Path)-1]
	if strings.HasPrefix(last, "x-") {
		return fmt.Sprint(got) == fmt.Sprint(f.Want)
	}
	if last == "description" {
		gs, ok1 := got.(string)
		ws, ok2 := f.Want.(string)
		return ok1 && ok2 && strings.TrimSpace(gs) == strings.TrimSpace(ws)
	}
	return false
}

func c17CheckFacts(r *evid.Run, p c17Program, doc J) {
	cs := c17Case{Kind: "faithfulness", Program: &p}
	outcome := "faithful"
	for _, f := range p.Facts {
		got, ok := lookup(doc, f.Path)
		if f.Want == nil {
			if ok {
				outcome = "VIOLATION"
				r.Violate(evid.Violation{Signature: "unfaithful | " + p.Class + " | " + f.What, What: fmt.Sprintf("program %s: %s expected absent but the document has %s at /%s", p.Name, f.What, mustJSON(got), strings.Join(f.Path, "/")), Case: cs})
			}
			continue
		}
		if ok && factTolerated(f, got) {
			continue
		}
		if !ok || !jsonEqual(got, f.Want) {
			outcome = "VIOLATION"
			gs := "nothing"
			if ok {
				gs = string(mustJSON(got))
			}
			r.Violate(evid.Violation{Signature: "unfaithful | " + p.Class + " | " + f.What, What: fmt.Sprintf("program %s: annotation says %s = %s but the document has %s at /%s", p.Name, f.What, mustJSON(f.Want), gs, strings.Join(f.Path, "/")), Case: cs})
		}
	}
	r.CaseKeyed("a1|"+p.Name, map[string]interface{}{"program": p.Name, "facts": len(p.Facts)}, true, outcome)
}
