package props

import (
	"fmt"

	"verif/mc/xplore"
)

// The diff feature family: a base document plus nine independent feature slots. Slot value 0 is
// "feature absent"; the explorer's deviation bound is therefore "number of features switched on".

func baseDoc() J {
	return J{
		"swagger":  "2.0",
		"info":     J{"title": "fam", "version": "1.0"},
		"consumes": A{"application/json"},
		"produces": A{"application/json"},
		"schemes":  A{"http"},
		"paths": J{
			"/a": J{"get": J{"operationId": "getA", "responses": J{"200": J{"description": "ok"}}}},
		},
		"definitions": J{
			"Pet": J{"type": "object", "required": A{"name"}, "properties": J{
				"name": J{"type": "string", "maxLength": 10},
				"age":  J{"type": "integer", "format": "int32", "minimum": 0, "maximum": 200},
				"kind": J{"type": "string", "enum": A{"cat", "dog"}},
			}},
		},
	}
}

func addParam(doc J, path, method string, p J) {
	op := at(doc, "paths", path, method)
	if _, ok := op["responses"]; !ok {
		op["responses"] = J{"200": J{"description": "ok"}}
		op["operationId"] = fmt.Sprintf("%s%s", method, sanitize(path))
	}
	ps, _ := op["parameters"].([]interface{})
	op["parameters"] = append(ps, p)
}

func sanitize(s string) string {
	o := []rune{}
	for _, r := range s {
		if (r >= 'a' && r <= 'z') || (r >= 'A' && r <= 'Z') || (r >= '0' && r <= '9') {
			o = append(o, r)
		}
	}
	return string(o)
}

type slot struct {
	name string
	vars []func(doc J)
}

func famSlots() []slot {
	q := func(p J) func(J) {
		return func(d J) { p["in"] = "query"; p["name"] = "q"; addParam(d, "/a", "get", cloneJ(p)) }
	}
	body := func(schema J, required bool) func(J) {
		return func(d J) {
			addParam(d, "/p", "post", J{"in": "body", "name": "body", "required": required, "schema": cloneJ(schema)})
		}
	}
	resp := func(code string, r J) func(J) {
		return func(d J) { at(d, "paths", "/a", "get", "responses")[code] = cloneJ(r) }
	}
	defs := func(ds J, refFrom string) func(J) {
		return func(d J) {
			for k, v := range ds {
				at(d, "definitions")[k] = clone(v)
			}
			if refFrom != "" {
				at(d, "paths", "/a", "get", "responses")["203"] = J{"description": "r", "schema": J{"$ref": "#/definitions/" + refFrom}}
			}
		}
	}
	return []slot{
		{"query", []func(J){
			q(J{"type": "string"}),
			q(J{"type": "string", "minLength": 1, "maxLength": 5, "pattern": "^a+$"}),
			q(J{"type": "string", "enum": A{"a", "b", "c"}}),
			q(J{"type": "integer", "format": "int32", "minimum": 1, "maximum": 9}),
			q(J{"type": "integer", "minimum": 1, "exclusiveMinimum": true, "maximum": 9, "exclusiveMaximum": true}),
			q(J{"type": "number", "multipleOf": 0.5}),
			q(J{"type": "boolean", "default": true}),
			q(J{"type": "array", "items": J{"type": "integer"}, "default": A{1, 2}}),
			q(J{"type": "array", "collectionFormat": "pipes", "items": J{"type": "string", "enum": A{"x", "y"}}, "minItems": 1, "maxItems": 3, "uniqueItems": true}),
			q(J{"type": "string", "required": true}),
			q(J{"type": "array", "items": J{"type": "array", "collectionFormat": "ssv", "items": J{"type": "integer", "maximum": 5}}}),
			q(J{"type": "string", "description": "a q", "x-ext": J{"k": A{1}}}),
			q(J{"type": "string", "default": "d"}),
			q(J{"type": "integer", "enum": A{1, 2, 3}}),
		}},
		{"path", []func(J){
			func(d J) {
				addParam(d, "/b/{id}", "get", J{"in": "path", "name": "id", "required": true, "type": "integer", "format": "int64", "minimum": 1})
			},
			func(d J) {
				addParam(d, "/b/{id}", "delete", J{"in": "path", "name": "id", "required": true, "type": "string", "format": "uuid"})
			},
		}},
		{"header", []func(J){
			func(d J) {
				addParam(d, "/a", "get", J{"in": "header", "name": "X-H", "type": "string", "maxLength": 8})
			},
			func(d J) {
				addParam(d, "/a", "get", J{"in": "header", "name": "X-L", "type": "array", "items": J{"type": "integer", "format": "int32"}, "required": true})
			},
			func(d J) { // one name in two locations of one operation
				addParam(d, "/a", "get", J{"in": "query", "name": "token", "type": "string"})
				addParam(d, "/a", "get", J{"in": "header", "name": "token", "type": "string", "required": true})
			},
			func(d J) { // ... and in the path-level list and the operation list
				at(d, "paths", "/a")["parameters"] = A{J{"in": "header", "name": "tok", "type": "string"}}
				addParam(d, "/a", "get", J{"in": "query", "name": "tok", "type": "integer"})
			},
		}},
		{"form", []func(J){
			func(d J) {
				addParam(d, "/f", "post", J{"in": "formData", "name": "f", "type": "string", "minLength": 2})
				at(d, "paths", "/f", "post")["consumes"] = A{"application/x-www-form-urlencoded"}
			},
			func(d J) {
				addParam(d, "/f", "post", J{"in": "formData", "name": "up", "type": "file", "required": true})
				at(d, "paths", "/f", "post")["consumes"] = A{"multipart/form-data"}
			},
		}},
		{"body", []func(J){
			body(J{"$ref": "#/definitions/Pet"}, true),
			body(J{"type": "object", "required": A{"a"}, "properties": J{"a": J{"type": "string", "minLength": 1}, "b": J{"type": "integer", "maximum": 5}}}, true),
			body(J{"type": "array", "items": J{"$ref": "#/definitions/Pet"}, "maxItems": 4}, true),
			body(J{"allOf": A{J{"$ref": "#/definitions/Pet"}, J{"type": "object", "properties": J{"extra": J{"type": "string"}}}}}, false),
			body(J{"type": "object", "additionalProperties": J{"type": "integer"}}, true),
			body(J{}, false),
			body(J{"type": "string", "maxLength": 3}, true),
			body(J{"type": "object", "properties": J{"o": J{"type": "object", "properties": J{"i": J{"type": "number", "minimum": 0.5}}}}}, true),
			body(J{"type": "object", "additionalProperties": J{"$ref": "#/definitions/Pet"}}, false),
			body(J{"type": "object", "properties": J{"own": J{"type": "string"}}, "allOf": A{J{"$ref": "#/definitions/Pet"}}}, true),
			body(J{"type": "object", "properties": J{"l": J{"type": "array", "items": J{"type": "string", "enum": A{"u", "v"}}, "default": A{"u"}}}}, true),
		}},
		{"shared", []func(J){
			func(d J) {
				at(d, "paths", "/a")["parameters"] = A{J{"in": "query", "name": "s", "type": "integer", "maximum": 7}}
			},
			func(d J) {
				at(d, "paths", "/a")["parameters"] = A{J{"in": "query", "name": "s", "type": "integer", "maximum": 7}}
				addParam(d, "/a", "get", J{"in": "query", "name": "s", "type": "integer", "maximum": 3, "required": true})
			},
			func(d J) {
				at(d, "parameters")["lim"] = J{"in": "query", "name": "lim", "type": "integer", "default": 10}
				addParam(d, "/a", "get", J{"$ref": "#/parameters/lim"})
			},
		}},
		{"response", []func(J){
			resp("200", J{"description": "ok", "schema": J{"$ref": "#/definitions/Pet"}}),
			resp("200", J{"description": "ok", "schema": J{"type": "object", "required": A{"x"}, "properties": J{"x": J{"type": "string"}, "y": J{"type": "integer"}}}}),
			resp("200", J{"description": "ok", "schema": J{"type": "array", "items": J{"$ref": "#/definitions/Pet"}}}),
			resp("204", J{"description": "none"}),
			resp("default", J{"description": "err", "schema": J{"type": "object", "properties": J{"code": J{"type": "integer"}}}}),
			resp("200", J{"description": "ok", "headers": J{"X-Rate": J{"type": "integer", "maximum": 100}, "X-Tags": J{"type": "array", "items": J{"type": "string"}}}}),
			resp("200", J{"description": "ok", "schema": J{}}),
			resp("200", J{"description": "ok", "schema": J{"allOf": A{J{"$ref": "#/definitions/Pet"}, J{"type": "object", "properties": J{"z": J{"type": "boolean"}}}}}}),
			resp("200", J{"description": "ok", "schema": J{"type": "object", "additionalProperties": J{"type": "string"}}}),
			resp("200", J{"description": "ok", "schema": J{"type": "string", "enum": A{"on", "off"}}}),
			resp("200", J{"description": "ok", "schema": J{"type": "object", "required": A{"own"}, "properties": J{"own": J{"type": "integer"}}, "allOf": A{J{"$ref": "#/definitions/Pet"}, J{"type": "object", "required": A{"w"}, "properties": J{"w": J{"type": "string"}}}}}}),
			resp("201", J{"description": "made", "schema": J{"type": "array", "items": J{"type": "integer"}}, "x-r": 1}),
			resp("200", J{"description": "ok", "schema": J{"type": "object", "properties": J{"n": J{"type": "object", "properties": J{"m": J{"type": "string", "maxLength": 4}}}}}}),
		}},
		{"defs", []func(J){
			defs(J{"Outer": J{"type": "object", "properties": J{"in": J{"type": "object", "properties": J{"leaf": J{"type": "string"}}}}}}, "Outer"),
			defs(J{"A": J{"type": "object", "properties": J{"b": J{"$ref": "#/definitions/B"}}}, "B": J{"type": "object", "properties": J{"a": J{"$ref": "#/definitions/A"}, "v": J{"type": "integer"}}}}, "A"),
			defs(J{"Node": J{"type": "object", "properties": J{"next": J{"$ref": "#/definitions/Node"}, "val": J{"type": "string"}}}}, "Node"),
			defs(J{"Both": J{"allOf": A{J{"$ref": "#/definitions/Pet"}, J{"$ref": "#/definitions/Tag"}}}, "Tag": J{"type": "object", "properties": J{"t": J{"type": "string"}}}}, "Both"),
			defs(J{"Any": J{}}, ""),
			defs(J{"Lone": J{"type": "object", "required": A{"l"}, "properties": J{"l": J{"type": "number", "maximum": 1.5}}}}, ""),
			defs(J{"Tree": J{"type": "object", "properties": J{"kids": J{"type": "array", "items": J{"$ref": "#/definitions/Tree"}}}}}, "Tree"),
			defs(J{"Any": J{}}, "Any"),
			defs(J{"Str": J{"type": "string", "enum": A{"p", "q"}}, "Holder": J{"type": "object", "properties": J{"s": J{"$ref": "#/definitions/Str"}}}}, "Holder"),
			defs(J{"Mixed": J{"type": "object", "properties": J{"own": J{"type": "string"}}, "allOf": A{J{"$ref": "#/definitions/Pet"}}}, "UsesMixed": J{"type": "object", "properties": J{"m": J{"$ref": "#/definitions/Mixed"}, "ms": J{"type": "array", "items": J{"$ref": "#/definitions/Mixed"}}}}}, "UsesMixed"),
			defs(J{"Arr": J{"type": "array", "items": J{"type": "string"}}, "M": J{"type": "object", "additionalProperties": J{"$ref": "#/definitions/Arr"}}}, "M"),
			// cycles that go through arrays / maps only
			defs(J{"Thread": J{"type": "array", "items": J{"$ref": "#/definitions/Thread"}}}, "Thread"),
			defs(J{"Grid": J{"type": "array", "items": J{"$ref": "#/definitions/Row"}}, "Row": J{"type": "array", "items": J{"$ref": "#/definitions/Grid"}}}, "Grid"),
			defs(J{"Dict": J{"type": "object", "additionalProperties": J{"$ref": "#/definitions/Dict"}}}, "Dict"),
		}},
		{"meta", []func(J){
			func(d J) {
				at(d, "paths", "/a", "get")["tags"] = A{"t1", "t2"}
				d["tags"] = A{J{"name": "t1", "description": "first", "x-tag": true}, J{"name": "t2"}}
			},
			func(d J) {
				d["x-root"] = "r"
				at(d, "info")["x-info"] = 1
				at(d, "paths", "/a")["x-path"] = A{"p"}
				at(d, "paths", "/a", "get")["x-op"] = J{"k": "v"}
				at(d, "paths", "/a", "get", "responses")["x-resps"] = "z"
			},
			func(d J) { at(d, "paths", "/a", "get")["deprecated"] = true },
			func(d J) {
				at(d, "paths", "/a", "get")["description"] = "describes a"
				at(d, "paths", "/a", "get")["summary"] = "sum"
			},
			func(d J) {
				at(d, "paths", "/a")["put"] = J{"operationId": "putA", "responses": J{"200": J{"description": "ok"}, "404": J{"description": "nf"}}}
			},
			func(d J) {
				d["consumes"] = A{"application/json", "application/xml"}
				d["produces"] = A{"application/json", "text/plain"}
				d["schemes"] = A{"http", "https"}
			},
			func(d J) { d["host"] = "example.com"; d["basePath"] = "/v1" },
			func(d J) {
				d["securityDefinitions"] = J{"key": J{"type": "apiKey", "in": "header", "name": "X-Key", "x-sec": "s"}}
				d["security"] = A{J{"key": A{}}}
			},
			func(d J) {
				at(d, "info")["contact"] = J{"name": "c", "x-c": 1}
				at(d, "info")["license"] = J{"name": "l", "x-l": 2}
				at(d, "info")["description"] = "about"
			},
			func(d J) {
				at(d, "paths", "/z")["get"] = J{"operationId": "getZ", "responses": J{"200": J{"description": "ok", "schema": J{"$ref": "#/definitions/Pet"}}}}
			},
		}},
	}
}

// FamSpec is one member of the family.
type FamSpec struct {
	Name string // e.g. "query=3+body=1"
	Doc  J
	Feat []string
}

func genFam(c *xplore.Ctx) FamSpec {
	doc := baseDoc()
	var feat []string
	for _, s := range famSlots() {
		v := c.Choose(len(s.vars)+1, s.name)
		if v > 0 {
			s.vars[v-1](doc)
			feat = append(feat, fmt.Sprintf("%s=%d", s.name, v))
		}
	}
	name := "base"
	if len(feat) > 0 {
		name = joinNonEmpty("+", feat...)
	}
	return FamSpec{Name: name, Doc: doc, Feat: feat}
}

// Family enumerates every family member with at most maxFeatures features switched on.
func Family(maxFeatures int) ([]FamSpec, xplore.Stats) {
	return xplore.Collect(xplore.Options{MaxDeviations: maxFeatures}, genFam)
}
