package props

import (
	"bytes"
	"encoding/json"
	"fmt"
	"os"
	"path/filepath"
	"regexp"
	"runtime"
	"runtime/debug"
	"strings"
	"time"

	"github.com/go-openapi/loads"
	"github.com/go-swagger/go-swagger/cmd/swagger/commands/initcmd"
	yaml "gopkg.in/yaml.v3"

	"verif/mc/evid"
	"verif/mc/xplore"
)

// C19 — JSON and YAML renderings of a spec are interchangeable.

type scalar struct {
	Name string
	S    string
}

func c19Scalars() []scalar {
	long := strings.Repeat("lorem ipsum ", 340)
	return []scalar{
		{"plain", "plain"}, {"int", "1"}, {"float", "1.0"}, {"leading0", "01"}, {"exp", "1e3"}, {"hex", "0x1F"}, {"octal", "0o7"}, {"oct1.1", "010"},
		{"true", "true"}, {"True", "True"}, {"yes", "yes"}, {"no", "no"}, {"on", "on"}, {"y", "y"}, {"null", "null"}, {"Null", "Null"}, {"tilde", "~"},
		{"empty", ""}, {"space", " "}, {"date", "2001-01-01"}, {"datetime", "2001-01-01T00:00:00Z"}, {"sexagesimal", "12:30:45"},
		{"colon", "a: b"}, {"dash-item", "- a"}, {"hash", "#c"}, {"inline-comment", "a #c"}, {"squote", "'"}, {"dquote", "\""}, {"newline", "a\nb"},
		{"trailing-nl", "a\n"}, {"leading-tab", "\ta"}, {"accent", "é"}, {"cjk", "日本"}, {"u2028", "a\u2028b"}, {"emoji", "😀"}, {"gt", ">"}, {"pipe", "|"},
		{"percent", "%"}, {"at", "@"}, {"backtick", "`"}, {"alias", "*a"}, {"anchor", "&a"}, {"tag", "!a"}, {"flow-map", "{a}"}, {"flow-seq", "[a]"},
		{"inf", ".inf"}, {"nan", ".nan"}, {"dash", "-"}, {"question", "?"}, {"crlf", "a\r\nb"}, {"bigint", "9007199254740993"}, {"neg0", "-0"}, {"underscore-num", "1_000"},
		{"leading-space", " a"}, {"trailing-space", "a "}, {"backslash", "a\\nb"}, {"nul-escape", "a\\0"}, {"merge", "<<"}, {"html-chars", "<a&b>"}, {"literal-u003c", `^[^\u003c\u003e]+$`}, {"literal-u0026", `a\u0026b`}, {"doc-sep", "---"}, {"long", long},
	}
}

type c19Pos struct {
	Name  string
	IsKey bool
	Apply func(d J, s string) bool // false: scalar not usable at this position
}

func c19Positions() []c19Pos {
	keyOK := func(s string) bool { return s != "" }
	return []c19Pos{
		{"info.description", false, func(d J, s string) bool { at(d, "info")["description"] = s; return true }},
		{"property.description", false, func(d J, s string) bool {
			at(d, "definitions", "Pet", "properties", "name")["description"] = s
			return true
		}},
		{"param.default", false, func(d J, s string) bool {
			addParam(d, "/a", "get", J{"in": "query", "name": "q", "type": "string", "default": s})
			return true
		}},
		{"schema.default", false, func(d J, s string) bool {
			at(d, "definitions", "Pet", "properties", "name")["default"] = s
			return true
		}},
		{"enum.member", false, func(d J, s string) bool {
			at(d, "definitions", "Pet", "properties", "kind")["enum"] = A{"cat", s}
			return s != "cat"
		}},
		{"schema.example", false, func(d J, s string) bool { at(d, "definitions", "Pet")["example"] = J{"name": s}; return true }},
		{"ext.string", false, func(d J, s string) bool { d["x-ext"] = s; return true }},
		{"ext.nested", false, func(d J, s string) bool { at(d, "paths", "/a", "get")["x-ext"] = J{"k": A{s, J{"n": s}}}; return true }},
		{"key.property", true, func(d J, s string) bool {
			at(d, "definitions", "Pet", "properties")[s] = J{"type": "string"}
			return keyOK(s)
		}},
		{"key.definition", true, func(d J, s string) bool {
			at(d, "definitions")[s] = J{"type": "object", "properties": J{"v": J{"type": "integer"}}}
			return keyOK(s) && !strings.ContainsAny(s, "/")
		}},
		{"key.extension", true, func(d J, s string) bool {
			d["x-"+s] = "v"
			return !strings.ContainsAny(s, "\n\r")
		}},
		{"key.ext-map", true, func(d J, s string) bool { d["x-map"] = J{s: 1, "other": true}; return true }},
		{"key.example-map", true, func(d J, s string) bool {
			at(d, "paths", "/a", "get", "responses", "200")["examples"] = J{"application/json": J{s: "v"}}
			return true
		}},
	}
}

// typed (non-string) scalars: numbers, booleans, null at value positions
type typedVal struct {
	Name string
	V    interface{}
}

func c19Typed() []typedVal {
	return []typedVal{
		{"num-big", json.Number("9007199254740993")}, {"num-2^63", json.Number("9223372036854775808")}, {"num-small", json.Number("0.0000001")},
		{"num-neg0", json.Number("-0")}, {"num-0.1", json.Number("0.1")}, {"num-1e21", json.Number("1e21")}, {"num-1.0", json.Number("1.0")},
		{"num-int", json.Number("42")},
		// very small, negative-small and near-integer numbers, the smallest subnormal, a sum artefact
		{"num-1e-12", json.Number("1e-12")}, {"num--1e-10", json.Number("-1e-10")}, {"num-near-int", json.Number("2.0000000001")}, {"num-subnormal", json.Number("5e-324")}, {"num-0.30000000000000004", json.Number("0.30000000000000004")}, {"num-neg-frac", json.Number("-273.15")}, {"bool-true", true}, {"bool-false", false}, {"typed-null", nil},
	}
}

type c19Case struct {
	Cmd    string `json:"cmd"`
	Scalar string `json:"scalar"`
	Pos    string `json:"position"`
	Doc    J      `json:"doc"`
}

type c19Cmd struct {
	Name string
	Run  func(dir, in, out, format string, pretty bool) error
}

func c19Commands(scanDir string) []c19Cmd {
	// every command is the real swagger binary in its own process: a log.Fatal or os.Exit inside a command
	// is then an ordinary failure of that run, not the end of the check
	bin := func(cwd string, args ...string) error {
		res := runCmd(cwd, 5*time.Minute, nil, SwaggerBin(), args...)
		if res.Err != nil {
			if strings.Contains(res.Out, "panic:") || strings.Contains(res.Out, "fatal error:") {
				panic("the command crashes: " + lastLines(res.Out, 6))
			}
			return fmt.Errorf("%v: %s", res.Err, lastLines(res.Out, 3))
		}
		return nil
	}
	return []c19Cmd{
		{"flatten", func(dir, in, out, format string, pretty bool) error {
			return bin(dir, "flatten", "--with-flatten=minimal", in, "-o", out, "--format", format)
		}},
		{"expand", func(dir, in, out, format string, pretty bool) error {
			return bin(dir, "expand", in, "-o", out, "--format", format)
		}},
		{"mixin", func(dir, in, out, format string, pretty bool) error {
			mix := filepath.Join(dir, "mixin-empty.json")
			if _, err := os.Stat(mix); err != nil {
				_ = os.WriteFile(mix, []byte(`{"swagger":"2.0","info":{"title":"m","version":"1"},"paths":{}}`), 0o644)
			}
			return bin(dir, "mixin", "--ignore-conflicts", in, mix, "-o", out, "--format", format)
		}},
		{"mixin-keep-spec-order", func(dir, in, out, format string, pretty bool) error {
			mix := filepath.Join(dir, "mixin-empty.json")
			if _, err := os.Stat(mix); err != nil {
				_ = os.WriteFile(mix, []byte(`{"swagger":"2.0","info":{"title":"m","version":"1"},"paths":{}}`), 0o644)
			}
			// --keep-spec-order pre-processes the mixed-in files: the document under test is the mixed-in one
			return bin(dir, "mixin", "--keep-spec-order", "--ignore-conflicts", mix, in, "-o", out, "--format", format)
		}},
		{"flatten-full", func(dir, in, out, format string, pretty bool) error {
			return bin(dir, "flatten", "--with-flatten=full", in, "-o", out, "--format", format)
		}},
		{"generate-spec", func(dir, in, out, format string, pretty bool) error {
			// generate spec decides the format from the output file name
			return bin(scanDir, "generate", "spec", "-q", "-o", out, "--input", in, "./...")
		}},
	}
}

func loadAsJSON(path string) (res interface{}, rerr error) {
	defer func() {
		// go-openapi/analysis panics on some key names (e.g. a property called "%": invalid URL
		// escape in MustCreateRef); that is a dependency's defect, reported here as a load error
		if r := recover(); r != nil {
			res, rerr = nil, fmt.Errorf("loader panic: %v", r)
		}
	}()
	d, err := loads.Spec(path)
	if err != nil {
		return nil, err
	}
	var v interface{}
	dec := json.NewDecoder(bytes.NewReader(d.Raw()))
	dec.UseNumber()
	if err := dec.Decode(&v); err != nil {
		return nil, err
	}
	return v, nil
}

func safeRun(f func() error) (err error, panicked string) {
	defer func() {
		if r := recover(); r != nil {
			panicked = fmt.Sprint(r) + "\n" + string(debug.Stack())
		}
	}()
	return f(), ""
}

func scalarClass(name string) string { return name }

var rxQuotedStatusKey = regexp.MustCompile(`(?m)^(\s*)"([1-5]\d{2})":`)

// c19Check runs one (command, document) through the four in/out format combinations.
func c19Check(dir string, cmd c19Cmd, cs c19Case, allCombos bool) (string, []evid.Violation) {
	var vs []evid.Violation
	kv := "value"
	if strings.HasPrefix(cs.Pos, "key.") {
		kv = "key"
	}
	viol := func(sig, what string, obs interface{}) {
		sig = strings.TrimSuffix(sig, " "+cs.Pos) + " scalar=" + cs.Scalar + " as " + kv
		vs = append(vs, evid.Violation{Signature: sig, What: fmt.Sprintf("[%s, scalar %s at %s] %s", cmd.Name, cs.Scalar, cs.Pos, what), Case: cs, Observed: obs})
	}
	inJ := filepath.Join(dir, "in.json")
	inY := filepath.Join(dir, "in.yaml")
	if err := os.WriteFile(inJ, mustJSON(cs.Doc), 0o644); err != nil {
		panic(err)
	}
	// harness YAML rendering (yaml.v3), checked to load back equal before it is used
	yb, err := yaml.Marshal(jsonToYAMLValue(cs.Doc))
	if err != nil {
		return "harness-yaml-unrenderable", nil
	}
	_ = os.WriteFile(inY, yb, 0o644)
	lj, errJ := loadAsJSON(inJ)
	if errJ != nil {
		return "input-unloadable", nil
	}
	ly, errY := loadAsJSON(inY)
	yamlInputOK := errY == nil && jsonEqualNum(lj, ly)

	ext := map[string]string{"json": "json", "yaml": "yaml"}
	outs := map[string]interface{}{}
	outBytes := map[string][]byte{}
	type combo struct{ in, inPath, format string }
	combos := []combo{{"json", inJ, "json"}, {"json", inJ, "yaml"}}
	// a second YAML rendering, the way specs are written by hand: status-code keys unquoted (YAML ints)
	inYP := filepath.Join(dir, "in-plainkeys.yaml")
	ybp := rxQuotedStatusKey.ReplaceAll(yb, []byte("$1$2:"))
	plainOK := false
	if yamlInputOK && !bytes.Equal(ybp, yb) {
		_ = os.WriteFile(inYP, ybp, 0o644)
		if lp, err := loadAsJSON(inYP); err == nil && jsonEqualNum(lj, lp) {
			plainOK = true
			combos = append(combos, combo{"yaml-plainkeys", inYP, "json"})
		}
	}
	if yamlInputOK {
		combos = append(combos, combo{"yaml", inY, "json"})
		if allCombos {
			combos = append(combos, combo{"yaml", inY, "yaml"})
		}
	}
	for _, c := range combos {
		out := filepath.Join(dir, fmt.Sprintf("out-%s-%s.%s", c.in, c.format, ext[c.format]))
		_ = os.Remove(out)
		err, p := safeRun(func() error { return cmd.Run(dir, c.inPath, out, c.format, true) })
		key := c.in + "->" + c.format
		if p != "" {
			viol("panic "+cmd.Name, "command panics ("+key+")", p)
			return "panic", vs
		}
		if err != nil {
			outs[key] = "ERROR: " + err.Error()
			continue
		}
		b, _ := os.ReadFile(out)
		outBytes[key] = b
		v, err := loadAsJSON(out)
		if err != nil {
			viol(fmt.Sprintf("unloadable-output %s %s %s", cmd.Name, c.format, cs.Pos), fmt.Sprintf("the %s output (%s) cannot be loaded back by the toolkit: %v", c.format, key, err), string(b))
			outs[key] = "UNLOADABLE"
			continue
		}
		outs[key] = v
	}
	jj, jy := outs["json->json"], outs["json->yaml"]
	if s, ok := jj.(string); ok && strings.HasPrefix(s, "ERROR") {
		if s2, ok2 := jy.(string); !ok2 || !strings.HasPrefix(s2, "ERROR") {
			viol("error-json-only "+cmd.Name, "command fails with --format json but succeeds with yaml: "+s, nil)
		}
		return "command-error", vs
	}
	// (i) YAML output loads JSON-equal to the JSON output
	if s, ok := jy.(string); ok {
		if s != "UNLOADABLE" {
			viol("error-yaml-only "+cmd.Name, "command succeeds with --format json but fails with yaml: "+s, nil)
		}
	} else if _, bad := jj.(string); !bad && !jsonEqualNum(jj, jy) {
		viol(fmt.Sprintf("yaml-output-differs %s %s", cmd.Name, cs.Pos), "YAML output does not load JSON-equal to the JSON output: first difference at "+firstDiff(jj, jy, ""), map[string]string{"yaml": string(outBytes["json->yaml"])})
	}
	// (ii) same result for JSON and YAML input
	if yamlInputOK {
		yj := outs["yaml->json"]
		if s, ok := yj.(string); ok {
			viol(fmt.Sprintf("yaml-input-fails %s %s", cmd.Name, cs.Pos), "command succeeds on the JSON rendering of the input but not on the YAML rendering: "+s, string(yb))
		} else if _, bad := jj.(string); !bad && !jsonEqualNum(jj, yj) {
			viol(fmt.Sprintf("yaml-input-differs %s %s", cmd.Name, cs.Pos), "result for YAML input differs from result for JSON input: first difference at "+firstDiff(jj, yj, ""), nil)
		}
		if plainOK {
			pj := outs["yaml-plainkeys->json"]
			if sp, ok := pj.(string); ok {
				viol(fmt.Sprintf("yaml-input-fails %s %s", cmd.Name, cs.Pos), "command succeeds on the JSON rendering of the input but not on the YAML rendering with unquoted status codes: "+sp, string(ybp))
			} else if _, bad := jj.(string); !bad && !jsonEqualNum(jj, pj) {
				viol(fmt.Sprintf("yaml-input-differs(unquoted status codes) %s %s", cmd.Name, cs.Pos), "result for YAML input with unquoted status-code keys differs from result for JSON input: first difference at "+firstDiff(jj, pj, ""), nil)
			}
		}
		if yy, ok := outs["yaml->yaml"]; ok {
			if _, bad := yy.(string); !bad {
				if _, bad2 := jj.(string); !bad2 && !jsonEqualNum(jj, yy) {
					viol(fmt.Sprintf("yaml-output-differs %s %s", cmd.Name, cs.Pos), "YAML->YAML result differs from JSON->JSON: "+firstDiff(jj, yy, ""), nil)
				}
			}
		}
		return "checked(i+ii)", vs
	}
	return "checked(i), yaml input not renderable by harness", vs
}

// jsonToYAMLValue converts a JSON value (with json.Number) to plain Go values for yaml.v3.
func jsonToYAMLValue(v interface{}) interface{} {
	var x interface{}
	dec := json.NewDecoder(bytes.NewReader(mustJSON(v)))
	dec.UseNumber()
	_ = dec.Decode(&x)
	return numToYAML(x)
}

func numToYAML(v interface{}) interface{} {
	switch t := v.(type) {
	case json.Number:
		if i, err := t.Int64(); err == nil {
			return i
		}
		var n yaml.Node
		n.Kind = yaml.ScalarNode
		n.Tag = "!!float"
		if !strings.ContainsAny(string(t), ".eE") {
			n.Tag = "!!int"
		}
		n.Value = string(t)
		return &n
	case map[string]interface{}:
		// a mapping node with the keys in the same (bytewise sorted) order as the JSON rendering:
		// commands that keep the textual order (--keep-spec-order) must see the same order in both
		n := &yaml.Node{Kind: yaml.MappingNode, Tag: "!!map"}
		for _, k := range sortedKeys(t) {
			kn := &yaml.Node{}
			_ = kn.Encode(k)
			vn := &yaml.Node{}
			switch x := numToYAML(t[k]).(type) {
			case *yaml.Node:
				vn = x
			default:
				_ = vn.Encode(x)
			}
			n.Content = append(n.Content, kn, vn)
		}
		return n
	case []interface{}:
		n := &yaml.Node{Kind: yaml.SequenceNode, Tag: "!!seq"}
		for _, x := range t {
			vn := &yaml.Node{}
			switch y := numToYAML(x).(type) {
			case *yaml.Node:
				vn = y
			default:
				_ = vn.Encode(y)
			}
			n.Content = append(n.Content, vn)
		}
		return n
	}
	return v
}

func jsonEqualNum(a, b interface{}) bool { return firstDiffNum(a, b) }

func firstDiffNum(a, b interface{}) bool {
	switch ta := a.(type) {
	case map[string]interface{}:
		tb, ok := b.(map[string]interface{})
		if !ok || len(ta) != len(tb) {
			return false
		}
		for k, x := range ta {
			y, ok := tb[k]
			if !ok || !firstDiffNum(x, y) {
				return false
			}
		}
		return true
	case []interface{}:
		tb, ok := b.([]interface{})
		if !ok || len(ta) != len(tb) {
			return false
		}
		for i := range ta {
			if !firstDiffNum(ta[i], tb[i]) {
				return false
			}
		}
		return true
	case json.Number:
		tb, ok := b.(json.Number)
		if !ok {
			return false
		}
		fa, _ := ta.Float64()
		fb, _ := tb.Float64()
		return fa == fb
	default:
		return string(mustJSON(a)) == string(mustJSON(b))
	}
}

func c19InitSpec(r *evid.Run, dir string, scalars []scalar) {
	fields := []string{"title", "description", "terms", "contact.name", "license.name", "version"}
	for _, sc := range scalars {
		for _, f := range fields {
			if sc.S == "" {
				continue
			}
			run := func(format string) (interface{}, []byte, error) {
				d := filepath.Join(dir, "init-"+format)
				_ = os.RemoveAll(d)
				_ = os.MkdirAll(d, 0o755)
				s := &initcmd.Spec{Format: format, Title: "t", Version: "1", Consumes: []string{"application/json"}, Produces: []string{"application/json"}, Schemes: []string{"http"}}
				switch f {
				case "title":
					s.Title = sc.S
				case "description":
					s.Description = sc.S
				case "terms":
					s.Terms = sc.S
				case "contact.name":
					s.Contact.Name = sc.S
				case "license.name":
					s.License.Name = sc.S
				case "version":
					s.Version = sc.S
				}
				if err, p := safeRun(func() error { return s.Execute([]string{d}) }); err != nil || p != "" {
					return nil, nil, fmt.Errorf("%v %s", err, p)
				}
				name := "swagger.json"
				if format == "yaml" {
					name = "swagger.yml"
				}
				b, _ := os.ReadFile(filepath.Join(d, name))
				v, err := loadAsJSON(filepath.Join(d, name))
				return v, b, err
			}
			vj, _, ej := run("json")
			vy, by, ey := run("yaml")
			out := "equal"
			cs := c19Case{Cmd: "init-spec", Scalar: sc.Name, Pos: f, Doc: J{"value": sc.S}}
			switch {
			case ej != nil && ey != nil:
				out = "both-error"
			case ej != nil || ey != nil:
				out = "one-error"
				r.Violate(evid.Violation{Signature: "init-spec one-format-fails scalar=" + sc.Name, What: fmt.Sprintf("init spec with %s=%q: json err=%v, yaml err=%v", f, sc.S, ej, ey), Case: cs, Observed: string(by)})
			case !jsonEqualNum(vj, vy):
				out = "differs"
				r.Violate(evid.Violation{Signature: "init-spec yaml-output-differs scalar=" + sc.Name, What: fmt.Sprintf("init spec with %s=%q: YAML document loads differently from the JSON one at %s", f, sc.S, firstDiff(vj, vy, "")), Case: cs, Observed: string(by)})
			}
			r.CaseKeyed("init|"+sc.Name+"|"+f, map[string]string{"cmd": "init-spec", "scalar": sc.Name, "field": f}, true, out)
		}
	}
}

func RunC19(tier string, replay string) int {
	quietLogs()
	r := evid.New("C19", tier)
	r.Rule = "documents = base spec with one scalar from a 63-string alphabet (YAML-ambiguous: numbers, booleans, nulls, timestamps, indicators, multi-line, non-ASCII, 4 KB) or one typed value (big/small numbers, booleans, null) placed at one of 13 positions (values: descriptions, defaults, enum member, example, extension; keys: property, definition, extension, map keys); each document goes through the real command objects (flatten, expand, mixin; thorough: flatten full, generate spec --input, and position pairs) in every input x output format combination; init spec over 6 option fields. distinct = (command, scalar, position); non-trivial = command succeeded and both clauses were evaluated"
	r.Assume = []string{"loads.Spec is the deciding loader (the toolkit's own)", "numbers are compared as float64 values: both the JSON and the YAML path go through float64, so precision loss identical on both paths is not a difference", "the harness' own YAML rendering of the input is first checked to load back JSON-equal; otherwise clause (ii) is skipped for that case and counted"}
	dir := ScratchRoot("C19")
	defer os.RemoveAll(dir)
	// an empty Go module for generate spec
	scanDir := filepath.Join(dir, "scanmod")
	_ = os.MkdirAll(scanDir, 0o755)
	_ = os.WriteFile(filepath.Join(scanDir, "go.mod"), []byte("module verif.scratch/empty\n\ngo 1.21\n"), 0o644)
	_ = os.WriteFile(filepath.Join(scanDir, "doc.go"), []byte("package empty\n"), 0o644)
	cmds := c19Commands(scanDir)

	if replay != "" {
		r.Replay = true
		var rep struct {
			Case c19Case `json:"case"`
		}
		if err := readJSONFile(replay, &rep); err != nil {
			fmt.Fprintln(os.Stderr, err)
			return 2
		}
		for _, c := range cmds {
			if c.Name == rep.Case.Cmd {
				out, vs := c19Check(dir, c, rep.Case, true)
				fmt.Println("outcome:", out)
				for _, v := range vs {
					fmt.Println(v.Signature, "::", v.What)
					r.Violate(v)
				}
			}
		}
		return r.Finish()
	}

	scalars := c19Scalars()
	positions := c19Positions()
	typed := c19Typed()
	// enumerate documents with the explorer: choice 1 = scalar kind, 2 = which, 3 = position
	type docCase struct {
		scalar, pos string
		doc         J
	}
	docs, st := xplore.Collect(xplore.Options{MaxDeviations: -1}, func(c *xplore.Ctx) docCase {
		d := baseDoc()
		// an inline schema under a numeric status-code key, and an inline body schema
		at(d, "paths", "/a", "get", "responses")["201"] = J{"description": "made", "schema": J{"type": "object", "properties": J{"b": J{"type": "string"}, "a": J{"type": "integer"}}}}
		addParam(d, "/a", "get", J{"in": "body", "name": "body", "schema": J{"type": "object", "properties": J{"z": J{"type": "string"}, "y": J{"type": "array", "items": J{"type": "object", "properties": J{"k": J{"type": "boolean"}}}}}}})
		if c.Choose(2, "kind") == 0 {
			sc := scalars[c.Choose(len(scalars), "scalar")]
			p := positions[c.Choose(len(positions), "position")]
			if !p.Apply(d, sc.S) {
				c.Skip()
			}
			return docCase{sc.Name, p.Name, d}
		}
		tv := typed[c.Choose(len(typed), "typed")]
		switch c.Choose(4, "typed-position") {
		case 0:
			d["x-ext"] = tv.V
			return docCase{tv.Name, "ext.value", d}
		case 1:
			at(d, "paths", "/a", "get")["x-ext"] = J{"k": A{tv.V}}
			return docCase{tv.Name, "ext.nested", d}
		case 2:
			if _, ok := tv.V.(json.Number); !ok {
				c.Skip()
			}
			at(d, "definitions", "Pet", "properties", "age")["maximum"] = tv.V
			delete(at(d, "definitions", "Pet", "properties", "age"), "format")
			return docCase{tv.Name, "schema.maximum", d}
		default:
			if tv.V == nil {
				c.Skip()
			}
			at(d, "definitions", "Pet")["example"] = J{"v": tv.V}
			return docCase{tv.Name, "schema.example", d}
		}
	})
	r.Extra["documents"] = len(docs)
	r.Extra["choice_points"] = st.Points
	byName := map[string]c19Cmd{}
	for _, c := range cmds {
		byName[c.Name] = c
	}
	docCmds := []c19Cmd{byName["flatten"], byName["expand"], byName["mixin"], byName["mixin-keep-spec-order"]}
	if tier == "thorough" {
		docCmds = append(docCmds, byName["flatten-full"])
	}
	type job struct {
		cmd c19Cmd
		dc  docCase
	}
	var jobs []job
	for _, dc := range docs {
		for _, c := range docCmds {
			jobs = append(jobs, job{c, dc})
		}
	}
	// generate spec (packages.Load per call): a 12-scalar slice in the quick tier, all scalars at 4 positions in thorough
	gs := byName["generate-spec"]
	for _, dc := range docs {
		use := false
		if tier == "thorough" {
			use = dc.pos == "info.description" || dc.pos == "schema.default" || dc.pos == "key.property" || dc.pos == "ext.value"
		} else {
			use = dc.pos == "schema.default" && (dc.scalar == "yes" || dc.scalar == "date" || dc.scalar == "tilde" || dc.scalar == "hex" || dc.scalar == "newline" || dc.scalar == "int" || dc.scalar == "html-chars" || dc.scalar == "literal-u003c" || dc.scalar == "literal-u0026" || dc.scalar == "backslash")
		}
		if use {
			jobs = append(jobs, job{gs, dc})
		}
	}
	parallel(len(jobs), runtime.NumCPU(), func(w, i int) {
		j := jobs[i]
		wdir := filepath.Join(dir, fmt.Sprint("w", w))
		_ = os.MkdirAll(wdir, 0o755)
		cs := c19Case{Cmd: j.cmd.Name, Scalar: j.dc.scalar, Pos: j.dc.pos, Doc: j.dc.doc}
		out, vs := c19Check(wdir, j.cmd, cs, tier == "thorough")
		for _, v := range vs {
			r.Violate(v)
		}
		r.CaseKeyed(j.cmd.Name+"|"+j.dc.scalar+"|"+j.dc.pos, map[string]string{"cmd": j.cmd.Name, "scalar": j.dc.scalar, "position": j.dc.pos, "outcome": out}, strings.HasPrefix(out, "checked"), out)
	})
	c19InitSpec(r, dir, scalars)
	r.Extra["bound_completed"] = "one scalar at one position per document; all in/out format combinations"
	return r.Finish()
}
