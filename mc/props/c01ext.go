package props

import (
	"fmt"
	"os"
	"path/filepath"
	"strings"
)

// C01 extensions.
//
// (6) pre-processing modes over the universes: the statement demands a build "under every spec
//     pre-processing mode (minimal flatten, full flatten, expand)"; the operation universe and the model
//     universe are therefore generated again with --with-flatten=full and with --with-expand.
// (7) the documented vendor-extension family (docs/reference/models/schemas.md, "Custom extensions" and
//     "External types"): x-go-type at top level and inline, with package, alias, hints (kind, nullable,
//     noValidation) and embedded; x-go-custom-tag, x-order, x-go-json-string, x-omitempty, x-isnullable,
//     x-is-nullable, x-go-name. The external types exist in package verif.scratch/m/custom of the scratch
//     module, so the generated code can be compiled.

const c01CustomPkg = scratchModule + "/custom"

const c01CustomSrc = `// Package custom holds the external types the x-go-type family refers to.
package custom

import (
	"context"

	"github.com/go-openapi/strfmt"
)

type MyStruct struct {
	A string ` + "`json:\"a,omitempty\"`" + `
}

func (m MyStruct) Validate(strfmt.Registry) error                         { return nil }
func (m MyStruct) ContextValidate(context.Context, strfmt.Registry) error { return nil }

type MyString string

func (m MyString) Validate(strfmt.Registry) error                         { return nil }
func (m MyString) ContextValidate(context.Context, strfmt.Registry) error { return nil }

type MyMap map[string]string

func (m MyMap) Validate(strfmt.Registry) error                         { return nil }
func (m MyMap) ContextValidate(context.Context, strfmt.Registry) error { return nil }

type MySlice []string

func (m MySlice) Validate(strfmt.Registry) error                         { return nil }
func (m MySlice) ContextValidate(context.Context, strfmt.Registry) error { return nil }

// NoValidate has no Validate method: only usable with hints.noValidation or embedded.
type NoValidate struct {
	B int ` + "`json:\"b,omitempty\"`" + `
}
`

// installCustomPkg writes the external package into the scratch module.
func installCustomPkg(s *Scratch) {
	d := filepath.Join(s.Dir, "custom")
	must(os.MkdirAll(d, 0o755))
	must(os.WriteFile(filepath.Join(d, "custom.go"), []byte(c01CustomSrc), 0o644))
}

type extKind struct {
	name   string
	schema J // the documented description of the type next to x-go-type
	goType string
	pkg    string
	hints  J
}

func c01ExtKinds() []extKind {
	return []extKind{
		{"struct", J{"type": "object"}, "MyStruct", c01CustomPkg, nil},
		{"string", J{"type": "string"}, "MyString", c01CustomPkg, nil},
		{"map", J{"type": "object", "additionalProperties": J{"type": "string"}}, "MyMap", c01CustomPkg, nil},
		{"slice", J{"type": "array", "items": J{"type": "string"}}, "MySlice", c01CustomPkg, nil},
		{"rawmessage(kind interface)", J{}, "RawMessage", "encoding/json", J{"kind": "interface"}},
		{"struct(noValidation)", J{"type": "object"}, "NoValidate", c01CustomPkg, J{"noValidation": true}},
		{"empty schema(kind object)", J{}, "MyStruct", c01CustomPkg, J{"kind": "object"}},
	}
}

type extMod struct {
	name  string
	apply func(s J) // edits the schema that carries x-go-type
}

func c01ExtMods() []extMod {
	xg := func(s J) J { return s["x-go-type"].(J) }
	hint := func(s J, k string, v interface{}) {
		h, _ := xg(s)["hints"].(J)
		if h == nil {
			h = J{}
			xg(s)["hints"] = h
		}
		h[k] = v
	}
	return []extMod{
		{"plain", func(s J) {}},
		{"alias", func(s J) { xg(s)["import"].(J)["alias"] = "fred" }},
		{"hint nullable", func(s J) { hint(s, "nullable", true) }},
		{"x-nullable", func(s J) { s["x-nullable"] = true }},
	}
}

// extPositions: where the external type is used. inline=true puts x-go-type at the use site, otherwise the
// use site refers to a top-level definition "Ext" that carries x-go-type.
type extPos struct {
	name   string
	inline bool
	// build returns the definitions (besides Ext) and, for operation positions, the operation
	build func(use J) (defs J, op J)
}

func c01ExtPositions() []extPos {
	obj := func(props J, req ...string) J {
		o := J{"type": "object", "properties": props}
		if len(req) > 0 {
			r := A{}
			for _, x := range req {
				r = append(r, x)
			}
			o["required"] = r
		}
		return o
	}
	ok := J{"200": J{"description": "ok"}}
	var out []extPos
	for _, inline := range []bool{false, true} {
		w := "ref"
		if inline {
			w = "inline"
		}
		out = append(out,
			extPos{w + " property", inline, func(u J) (J, J) { return J{"User": obj(J{"p": u, "q": J{"type": "string"}})}, nil }},
			extPos{w + " required property", inline, func(u J) (J, J) { return J{"User": obj(J{"p": u}, "p")}, nil }},
			extPos{w + " array items (definition)", inline, func(u J) (J, J) { return J{"User": J{"type": "array", "items": u}}, nil }},
			extPos{w + " map values (definition)", inline, func(u J) (J, J) { return J{"User": J{"type": "object", "additionalProperties": u}}, nil }},
			extPos{w + " array property", inline, func(u J) (J, J) {
				return J{"User": obj(J{"l": J{"type": "array", "items": u}})}, nil
			}},
			extPos{w + " map property", inline, func(u J) (J, J) {
				return J{"User": obj(J{"m": J{"type": "object", "additionalProperties": u}})}, nil
			}},
			extPos{w + " additionalProperties next to properties", inline, func(u J) (J, J) {
				return J{"User": J{"type": "object", "properties": J{"a": J{"type": "string"}}, "additionalProperties": u}}, nil
			}},
			extPos{w + " body parameter", inline, func(u J) (J, J) {
				return J{}, J{"parameters": A{J{"in": "body", "name": "body", "required": true, "schema": u}}, "responses": ok}
			}},
			extPos{w + " response", inline, func(u J) (J, J) {
				return J{}, J{"responses": J{"200": J{"description": "ok", "schema": u}}}
			}},
			extPos{w + " array response", inline, func(u J) (J, J) {
				return J{}, J{"responses": J{"200": J{"description": "ok", "schema": J{"type": "array", "items": u}}}}
			}},
		)
	}
	out = append(out,
		extPos{"ref allOf member", false, func(u J) (J, J) {
			return J{"User": J{"allOf": A{u, obj(J{"own": J{"type": "string"}})}}}, nil
		}},
		extPos{"ref of ref (alias definition)", false, func(u J) (J, J) { return J{"User": u}, nil }},
	)
	return out
}

type extCase struct {
	Kind, Pos, Mod string
	Doc            J
	HasOp          bool
}

func (e extCase) Class() string { return "ext:" + e.Kind + " / " + e.Pos + " / " + e.Mod }

func c01ExtTypeCases(tier string) []extCase {
	var out []extCase
	for _, k := range c01ExtKinds() {
		for _, p := range c01ExtPositions() {
			for mi, m := range c01ExtMods() {
				if mi > 0 { // modifiers only on the struct and string kinds at property / items positions (both tiers)
					// quick tier: modifiers only on the struct and string kinds at property / items positions
					if !(k.name == "struct" || k.name == "string") || !(strings.HasSuffix(p.name, " property") || strings.Contains(p.name, "array items")) {
						continue
					}
				}
				if p.name == "ref allOf member" && k.name != "struct" && k.name != "struct(noValidation)" && k.name != "empty schema(kind object)" {
					continue // allOf composes objects
				}
				carrier := cloneJ(k.schema)
				xg := J{"type": k.goType, "import": J{"package": k.pkg}}
				if k.hints != nil {
					xg["hints"] = cloneJ(k.hints)
				}
				carrier["x-go-type"] = xg
				m.apply(carrier)
				doc := J{"swagger": "2.0", "info": J{"title": "verif", "version": "1"}, "consumes": A{"application/json"}, "produces": A{"application/json"}, "paths": J{}, "definitions": J{}}
				var use J
				if p.inline {
					use = carrier
				} else {
					at(doc, "definitions")["Ext"] = carrier
					use = J{"$ref": "#/definitions/Ext"}
				}
				defs, op := p.build(use)
				for n, d := range defs {
					at(doc, "definitions")[n] = d
				}
				if op != nil {
					op["operationId"] = "doIt"
					at(doc, "paths", "/it")["post"] = op
				}
				out = append(out, extCase{Kind: k.name, Pos: p.name, Mod: m.name, Doc: doc, HasOp: op != nil})
			}
		}
	}
	return out
}

// c01ExtOtherCases: the remaining documented extensions, each in one small document.
func c01ExtOtherCases() []extCase {
	doc := func(defs J) J {
		return J{"swagger": "2.0", "info": J{"title": "verif", "version": "1"}, "paths": J{}, "definitions": defs}
	}
	xt := func(t, pkg string, extra J) J {
		o := J{"type": t, "import": J{"package": pkg}}
		for k, v := range extra {
			o[k] = v
		}
		return o
	}
	mk := func(name string, defs J) extCase {
		return extCase{Kind: "other", Pos: name, Mod: "plain", Doc: doc(defs)}
	}
	return []extCase{
		mk("embedded time.Time", J{"Time": J{"type": "string", "format": "date-time", "x-go-type": xt("Time", "time", J{"embedded": true})}, "User": J{"type": "object", "properties": J{"t": J{"$ref": "#/definitions/Time"}}}}),
		mk("embedded RawMessage kind primitive", J{"Raw": J{"x-go-type": xt("RawMessage", "encoding/json", J{"embedded": true, "hints": J{"kind": "primitive"}})}}),
		mk("embedded pointer (nullable hint)", J{"Time": J{"type": "string", "x-go-type": xt("Time", "time", J{"embedded": true, "hints": J{"nullable": true}})}}),
		mk("embedded struct without Validate", J{"NV": J{"type": "object", "x-go-type": xt("NoValidate", c01CustomPkg, J{"embedded": true})}, "User": J{"type": "object", "required": A{"n"}, "properties": J{"n": J{"$ref": "#/definitions/NV"}, "l": J{"type": "array", "items": J{"$ref": "#/definitions/NV"}}}}}),
		mk("embedded struct with Validate", J{"WV": J{"type": "object", "x-go-type": xt("MyStruct", c01CustomPkg, J{"embedded": true})}, "User": J{"type": "object", "additionalProperties": J{"$ref": "#/definitions/WV"}}}),
		mk("kind object + x-nullable on an empty schema", J{"Hot": J{"x-go-type": xt("MyStruct", c01CustomPkg, J{"hints": J{"kind": "object"}}), "x-nullable": true}, "User": J{"type": "object", "properties": J{"h": J{"$ref": "#/definitions/Hot"}}}}),
		mk("two external packages with the same base name alias", J{"A": J{"type": "object", "x-go-type": xt("MyStruct", c01CustomPkg, nil)}, "B": J{"x-go-type": xt("RawMessage", "encoding/json", J{"hints": J{"kind": "interface"}})}, "User": J{"type": "object", "properties": J{"a": J{"$ref": "#/definitions/A"}, "b": J{"$ref": "#/definitions/B"}}}}),
		mk("x-go-custom-tag", J{"User": J{"type": "object", "required": A{"b"}, "properties": J{"a": J{"type": "string", "x-go-custom-tag": `db:"a" yaml:"a,omitempty"`}, "b": J{"type": "integer", "x-go-custom-tag": `validate:"min=1"`}}}}),
		mk("x-order", J{"User": J{"type": "object", "properties": J{"z": J{"type": "string", "x-order": 0}, "a": J{"type": "string", "x-order": 1}, "m": J{"type": "string", "x-order": 1}, "neg": J{"type": "string", "x-order": -1}}}}),
		mk("x-go-json-string", J{"User": J{"type": "object", "required": A{"r"}, "properties": J{"n": J{"type": "integer", "x-go-json-string": true}, "f": J{"type": "number", "format": "double", "x-go-json-string": true, "maximum": 5}, "r": J{"type": "integer", "format": "int32", "x-go-json-string": true}, "b": J{"type": "boolean", "x-go-json-string": true}}}}),
		mk("x-omitempty false", J{"User": J{"type": "object", "properties": J{"s": J{"type": "string", "x-omitempty": false}, "l": J{"type": "array", "items": J{"type": "string"}, "x-omitempty": false}, "o": J{"type": "object", "x-omitempty": false, "properties": J{"i": J{"type": "integer"}}}, "r": J{"$ref": "#/definitions/Other", "x-omitempty": false}}}, "Other": J{"type": "object", "properties": J{"k": J{"type": "string"}}}}),
		mk("x-isnullable / x-is-nullable", J{"User": J{"type": "object", "required": A{"c"}, "properties": J{"a": J{"type": "string", "x-isnullable": true}, "b": J{"type": "integer", "x-is-nullable": true, "minimum": 1}, "c": J{"type": "string", "x-isnullable": false}, "d": J{"type": "array", "items": J{"type": "string", "x-isnullable": true}}, "e": J{"type": "object", "additionalProperties": J{"type": "integer", "x-nullable": true}}}}}),
		mk("allOf with a schema holding only x-nullable", J{"Base": J{"type": "object", "properties": J{"k": J{"type": "string"}}}, "User": J{"type": "object", "properties": J{"n": J{"allOf": A{J{"$ref": "#/definitions/Base"}, J{"x-nullable": true}}}, "m": J{"allOf": A{J{"$ref": "#/definitions/Base"}, J{"x-isnullable": true}}}}}}),
		mk("x-go-name on definition and properties", J{"user-thing": J{"type": "object", "x-go-name": "Customer", "properties": J{"a": J{"type": "string", "x-go-name": "Alpha"}, "b": J{"type": "object", "x-go-name": "Beta", "properties": J{"c": J{"type": "string"}}}, "l": J{"type": "array", "x-go-name": "Lst", "items": J{"type": "object", "properties": J{"d": J{"type": "string"}}}}}}, "Holder": J{"type": "object", "properties": J{"u": J{"$ref": "#/definitions/user-thing"}}}}),
		mk("xml name and attribute", J{"User": J{"type": "object", "xml": J{"name": "usr"}, "properties": J{"f": J{"type": "string", "xml": J{"name": "xmlObject", "attribute": true}}, "g": J{"type": "array", "xml": J{"wrapped": true}, "items": J{"type": "string", "xml": J{"name": "it"}}}}}}),
	}
}

func c01ExtCases(tier string) []c01Case {
	var out []c01Case
	add := func(e extCase, target string, args ...string) {
		out = append(out, c01Case{Name: fmt.Sprintf("vendor extension {%s / %s / %s}", e.Kind, e.Pos, e.Mod), Class: e.Class(), Doc: e.Doc, Target: target, Args: args, Strict: true})
	}
	for _, e := range append(c01ExtTypeCases(tier), c01ExtOtherCases()...) {
		if e.HasOp {
			add(e, "server")
			continue
		}
		add(e, "model")
	}
	return out
}

// (8) enum value pairs that differ by one punctuation character at the end or at the start ("A" / "A+",
// "+A" / "A"): the generator spells out some characters (. + - #) so that such values get distinct
// constant names; every character gets its own case (and signature).
func c01EnumPairDefs() []DefCase {
	var out []DefCase
	chars := []string{".", "+", "-", "#", "&", "*", "/", "<", ">", "=", "!", "@", "$", "%", "^", "~", "|", "?", ":", ";", ",", "'", "\"", "\\", " ", "(", ")", "[", "]", "{", "}", "_"}
	for i, c := range chars {
		for j, pair := range [][2]string{{"A" + c, "A"}, {c + "A", "A"}, {"A" + c + "B", "AB"}} {
			where := []string{"trailing", "leading", "inner"}[j]
			out = append(out, DefCase{Name: fmt.Sprintf("EP%02d%d", i, j), Schema: J{"type": "string", "enum": A{pair[0], pair[1]}},
				Desc: fmt.Sprintf("enum pair %q / %q", pair[0], pair[1]), Kw: "enumpair", Chain: "enumpair " + where + " " + c})
			// the same pair as a property enum
			out = append(out, DefCase{Name: fmt.Sprintf("EQ%02d%d", i, j), Schema: J{"type": "object", "properties": J{"e": J{"type": "string", "enum": A{pair[0], pair[1]}}}},
				Desc: fmt.Sprintf("property enum pair %q / %q", pair[0], pair[1]), Kw: "enumpair", Chain: "prop-enumpair " + where + " " + c})
		}
	}
	return out
}

// c01CaseVariants: every name of the list in lower, Title and UPPER case (the templates' own identifiers
// are looked up case-insensitively by the name de-confliction: timeout / Timeout / TIMEOUT).
func c01CaseVariants(names []string) []string {
	seen := map[string]bool{}
	var out []string
	for _, n := range names {
		for _, v := range []string{n, strings.ToLower(n), strings.ToUpper(n), strings.ToUpper(n[:1]) + strings.ToLower(n[1:])} {
			if !seen[v] {
				seen[v] = true
				out = append(out, v)
			}
		}
	}
	return out
}

// (9) one name in ONE position at a time (the carrier of (3) places a name in every position at once, so a
// failure caused by one position hides what another position would do): one operation per (name, parameter
// location), packed like the operation universe, and one definition per name with a property of that name.
func c01NameOps(names []string) []OpCase {
	var out []OpCase
	for _, n := range names {
		for _, loc := range []string{"query", "header", "formData", "path"} {
			if loc == "path" && rxUnsafeInPath.MatchString(n) {
				continue
			}
			p := J{"in": loc, "name": n, "type": "string"}
			op := OpCase{Method: "post", Params: []J{p}, Desc: fmt.Sprintf("parameter named %q in %s", n, loc), Class: "name-position | " + loc + " | " + n}
			switch loc {
			case "path":
				p["required"] = true
				op.Path = "/{" + n + "}"
			case "formData":
				op.Cons = []string{"application/x-www-form-urlencoded"}
			}
			out = append(out, op)
		}
	}
	return out
}

func c01NamePropDefs(names []string) []DefCase {
	var out []DefCase
	for i, n := range names {
		out = append(out, DefCase{Name: fmt.Sprintf("NP%03d", i), Schema: J{"type": "object", "required": A{n}, "properties": J{n: J{"type": "string", "minLength": 1}, "other": J{"type": "integer"}}},
			Desc: fmt.Sprintf("required property named %q", n), Kw: "name", Chain: "name-position property " + n})
	}
	return out
}
