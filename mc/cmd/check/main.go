// Command check runs one property check: check <ID> [--tier quick|thorough] [--replay file].
package main

import (
	"fmt"
	"os"

	"verif/mc/props"
)

func main() {
	if len(os.Args) < 2 {
		fmt.Fprintln(os.Stderr, "usage: check <property-id> [--tier quick|thorough] [--replay file]")
		os.Exit(2)
	}
	id := os.Args[1]
	tier := "quick"
	if t := os.Getenv("VERIF_TIER"); t != "" {
		tier = t
	}
	replay := ""
	args := os.Args[2:]
	for i := 0; i < len(args); i++ {
		switch args[i] {
		case "--tier":
			i++
			tier = args[i]
		case "--replay":
			i++
			replay = args[i]
		}
	}
	if id == "--worker" {
		os.Exit(props.Worker(os.Args[2:]))
	}
	f, ok := props.Registry[id]
	if !ok {
		fmt.Fprintf(os.Stderr, "unknown property %s\n", id)
		os.Exit(2)
	}
	os.Exit(f(tier, replay))
}
