// Command check runs one property check: check <ID> [--tier quick|thorough] [--replay file].
package main

import (
	"bytes"
	"fmt"
	"io"
	"os"
	"os/exec"
	"regexp"

	"verif/mc/props"
)

var rxVerdict = regexp.MustCompile(`(?m)^C\d\d\w* tier=\S+ evaluations=`)

// guard runs the check in a child process. Several checks call go-swagger code in-process; if that code
// ends the process (log.Fatal, os.Exit, a fatal runtime error) the child dies without a verdict. The
// guard turns that into an explicit harness error (exit 2) instead of a bare non-zero exit.
func guard() int {
	cmd := exec.Command(os.Args[0], os.Args[1:]...)
	cmd.Env = append(os.Environ(), "VERIF_GUARDED=1")
	var out bytes.Buffer
	cmd.Stdout = io.MultiWriter(os.Stdout, &out)
	var errb bytes.Buffer
	cmd.Stderr = io.MultiWriter(os.Stderr, &errb)
	cmd.Stdin = os.Stdin
	err := cmd.Run()
	code := 0
	if ee, ok := err.(*exec.ExitError); ok {
		code = ee.ExitCode()
	} else if err != nil {
		fmt.Fprintln(os.Stderr, "HARNESS:", err)
		return 2
	}
	if (code == 0 || code == 1) && !rxVerdict.Match(out.Bytes()) {
		tail := errb.String()
		if len(tail) > 1500 {
			tail = tail[len(tail)-1500:]
		}
		fmt.Fprintf(os.Stderr, "HARNESS: the check process ended (exit %d) without reaching a verdict - code under test ended the process (log.Fatal / os.Exit / fatal error)? last output:\n%s\n", code, tail)
		return 2
	}
	return code
}

func main() {
	if len(os.Args) < 2 {
		fmt.Fprintln(os.Stderr, "usage: check <property-id> [--tier quick|thorough] [--replay file]")
		os.Exit(2)
	}
	id := os.Args[1]
	tier := "quick"
	if t := os.Getenv("VERIF_TIER"); t != "" {
		tier = t
	}
	replay := ""
	args := os.Args[2:]
	for i := 0; i < len(args); i++ {
		switch args[i] {
		case "--tier":
			i++
			tier = args[i]
		case "--replay":
			i++
			replay = args[i]
		}
	}
	if id == "--worker" {
		os.Exit(props.Worker(os.Args[2:]))
	}
	if os.Getenv("VERIF_GUARDED") == "" && replay == "" {
		os.Exit(guard())
	}
	f, ok := props.Registry[id]
	if !ok {
		fmt.Fprintf(os.Stderr, "unknown property %s\n", id)
		os.Exit(2)
	}
	os.Exit(f(tier, replay))
}
