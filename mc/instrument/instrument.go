// Package instrument rewrites go-swagger's sources for the C07 explorations and emits a
// `go build -overlay` file: nothing is written into the repository.
//
//   - every `range` over a map becomes an iteration over vrt.Keys(site, m);
//   - (optionally) sync.Mutex fields/vars become vrt.Mutex and vrt.Point(site) is inserted before every
//     statement that reads or writes a watched package-level variable.
package instrument

import (
	"bytes"
	"encoding/json"
	"fmt"
	"go/ast"
	"go/format"
	"go/token"
	"go/types"
	"os"
	"path/filepath"
	"sort"
	"strings"

	"golang.org/x/tools/go/packages"
)

// Site describes one instrumented location.
type Site struct {
	ID   int    `json:"id"`
	Kind string `json:"kind"` // maprange | point
	Pos  string `json:"pos"`  // file:line relative to the repository
	Func string `json:"func"`
	Var  string `json:"var,omitempty"`
}

// Result of an instrumentation.
type Result struct {
	Overlay string // path of overlay.json
	// OverlayPlain only adds the runtime package (no source file is replaced)
	OverlayPlain string
	Sites        []Site
	Skipped      []string // map ranges left alone (labelled loops etc.)
	GoSkipped    []string // go statements left alone (variadic / value-returning / more than 4 arguments)
	WatchedVars  []string
}

const vrtImport = "github.com/go-swagger/go-swagger/vrtverif"

// Options select what to instrument.
type Options struct {
	Repo      string
	OutDir    string
	VrtSource string // path of vrt.go.src
	Patterns  []string
	Scheduler bool // also insert scheduling points and replace sync.Mutex
	// NoMapRanges leaves map ranges alone (scheduler-only build)
	NoMapRanges bool
	// Goroutines rewrites go statements into vrt.Go<n>(site, f, args...) and sync.WaitGroup / sync.Mutex into
	// the vrt types, so that goroutines started by a command are threads of the cooperative scheduler
	Goroutines bool
}

// Run instruments the repository.
func Run(o Options) (*Result, error) {
	cfg := &packages.Config{Mode: packages.NeedName | packages.NeedFiles | packages.NeedSyntax | packages.NeedTypes | packages.NeedTypesInfo | packages.NeedCompiledGoFiles | packages.NeedImports, Dir: o.Repo,
		Env: append(os.Environ(), "GOFLAGS=-mod=mod", "GOPROXY=off", "GOSUMDB=off", "GOTOOLCHAIN=local")}
	pkgs, err := packages.Load(cfg, o.Patterns...)
	if err != nil {
		return nil, err
	}
	if n := packages.PrintErrors(pkgs); n > 0 {
		return nil, fmt.Errorf("%d package errors", n)
	}
	res := &Result{}
	overlay := map[string]string{}
	if err := os.MkdirAll(o.OutDir, 0o755); err != nil {
		return nil, err
	}
	sort.Slice(pkgs, func(i, j int) bool { return pkgs[i].PkgPath < pkgs[j].PkgPath })

	// watched variables: package-level vars of the instrumented packages that are written somewhere
	// outside init / their declaration (assigned, index-assigned, appended to, address taken, method called
	// through a pointer receiver is approximated by "address taken")
	watched := map[*types.Var]bool{}
	if o.Scheduler {
		for _, p := range pkgs {
			for _, f := range p.Syntax {
				for _, d := range f.Decls {
					fd, ok := d.(*ast.FuncDecl)
					if !ok || fd.Body == nil || fd.Name.Name == "init" {
						continue
					}
					ast.Inspect(fd.Body, func(n ast.Node) bool {
						mark := func(e ast.Expr) {
							for {
								switch t := e.(type) {
								case *ast.IndexExpr:
									e = t.X
									continue
								case *ast.SelectorExpr:
									if id, ok := t.X.(*ast.Ident); ok {
										if _, isPkg := p.TypesInfo.Uses[id].(*types.PkgName); isPkg {
											e = t.Sel
											continue
										}
									}
									e = t.X
									continue
								case *ast.StarExpr:
									e = t.X
									continue
								case *ast.ParenExpr:
									e = t.X
									continue
								}
								break
							}
							if id, ok := e.(*ast.Ident); ok {
								if v, ok := p.TypesInfo.Uses[id].(*types.Var); ok && v.Parent() != nil && v.Parent() == v.Pkg().Scope() {
									watched[v] = true
								}
							}
						}
						switch t := n.(type) {
						case *ast.AssignStmt:
							for _, l := range t.Lhs {
								mark(l)
							}
						case *ast.IncDecStmt:
							mark(t.X)
						case *ast.UnaryExpr:
							if t.Op == token.AND {
								mark(t.X)
							}
						}
						return true
					})
				}
			}
		}
		for v := range watched {
			res.WatchedVars = append(res.WatchedVars, v.Pkg().Path()+"."+v.Name())
		}
		sort.Strings(res.WatchedVars)
	}

	siteID := 0
	for _, p := range pkgs {
		for fi, f := range p.Syntax {
			filename := p.CompiledGoFiles[fi]
			if strings.HasSuffix(filename, "_test.go") || !strings.HasPrefix(filename, o.Repo) {
				continue
			}
			rel, _ := filepath.Rel(o.Repo, filename)
			changed := false
			needImport := false
			curFunc := ""

			// ---- map ranges
			var rewriteBlock func(list []ast.Stmt) []ast.Stmt
			rewriteStmt := func(s ast.Stmt) ast.Stmt { return s }
			var visit func(n ast.Node)
			visit = func(n ast.Node) {}
			_ = visit
			rewriteBlock = func(list []ast.Stmt) []ast.Stmt {
				out := make([]ast.Stmt, 0, len(list))
				for _, st := range list {
					out = append(out, rewriteStmt(st))
				}
				return out
			}
			_ = rewriteBlock

			ast.Inspect(f, func(n ast.Node) bool {
				if fd, ok := n.(*ast.FuncDecl); ok {
					curFunc = fd.Name.Name
				}
				// we need the parent to replace a statement: handle containers
				replaceIn := func(list []ast.Stmt) {
					for i, st := range list {
						rs, ok := st.(*ast.RangeStmt)
						if !ok {
							continue
						}
						tv, ok := p.TypesInfo.Types[rs.X]
						if !ok {
							continue
						}
						if _, isMap := tv.Type.Underlying().(*types.Map); !isMap || o.NoMapRanges {
							continue
						}
						siteID++
						pos := p.Fset.Position(rs.Pos())
						res.Sites = append(res.Sites, Site{ID: siteID, Kind: "maprange", Pos: fmt.Sprintf("%s:%d", rel, pos.Line), Func: curFunc})
						list[i] = rewriteRange(rs, siteID)
						changed, needImport = true, true
					}
				}
				switch t := n.(type) {
				case *ast.BlockStmt:
					replaceIn(t.List)
				case *ast.CaseClause:
					replaceIn(t.Body)
				case *ast.CommClause:
					replaceIn(t.Body)
				case *ast.LabeledStmt:
					if rs, ok := t.Stmt.(*ast.RangeStmt); ok {
						if tv, ok := p.TypesInfo.Types[rs.X]; ok {
							if _, isMap := tv.Type.Underlying().(*types.Map); isMap {
								pos := p.Fset.Position(rs.Pos())
								res.Skipped = append(res.Skipped, fmt.Sprintf("%s:%d (labelled loop)", rel, pos.Line))
							}
						}
					}
				}
				return true
			})

			// ---- goroutines of the code under test: go statements -> vrt.Go<n>, sync.WaitGroup/Mutex -> vrt types
			if o.Goroutines {
				curFunc = ""
				ast.Inspect(f, func(n ast.Node) bool {
					if fd, ok := n.(*ast.FuncDecl); ok {
						curFunc = fd.Name.Name
					}
					replaceGo := func(list []ast.Stmt) {
						for i, st := range list {
							gs, ok := st.(*ast.GoStmt)
							if !ok {
								continue
							}
							pos := p.Fset.Position(gs.Pos())
							where := fmt.Sprintf("%s:%d", rel, pos.Line)
							sig, _ := p.TypesInfo.TypeOf(gs.Call.Fun).Underlying().(*types.Signature)
							if sig == nil || sig.Variadic() || sig.Results().Len() > 0 || sig.Params().Len() > 4 || len(gs.Call.Args) != sig.Params().Len() || gs.Call.Ellipsis.IsValid() {
								res.GoSkipped = append(res.GoSkipped, where)
								continue
							}
							siteID++
							res.Sites = append(res.Sites, Site{ID: siteID, Kind: "go", Pos: where, Func: curFunc})
							args := []ast.Expr{&ast.BasicLit{Kind: token.INT, Value: fmt.Sprint(siteID)}, gs.Call.Fun}
							args = append(args, gs.Call.Args...)
							list[i] = &ast.ExprStmt{X: &ast.CallExpr{Fun: &ast.SelectorExpr{X: ast.NewIdent("vrt"), Sel: ast.NewIdent(fmt.Sprintf("Go%d", sig.Params().Len()))}, Args: args}}
							changed, needImport = true, true
						}
					}
					switch t := n.(type) {
					case *ast.BlockStmt:
						replaceGo(t.List)
					case *ast.CaseClause:
						replaceGo(t.Body)
					case *ast.CommClause:
						replaceGo(t.Body)
					}
					return true
				})
				ast.Inspect(f, func(n ast.Node) bool {
					se, ok := n.(*ast.SelectorExpr)
					if !ok {
						return true
					}
					if id, ok := se.X.(*ast.Ident); ok && id.Name == "sync" && (se.Sel.Name == "Mutex" || se.Sel.Name == "WaitGroup") {
						if _, isPkg := p.TypesInfo.Uses[id].(*types.PkgName); isPkg {
							id.Name = "vrt"
							changed, needImport = true, true
						}
					}
					return true
				})
			}

			// ---- scheduler: points before statements touching watched vars; sync.Mutex -> vrt.Mutex
			if o.Scheduler {
				curFunc = ""
				for _, d := range f.Decls {
					fd, ok := d.(*ast.FuncDecl)
					if !ok || fd.Body == nil || fd.Name.Name == "init" {
						continue
					}
					curFunc = fd.Name.Name
					var insertPoints func(list []ast.Stmt) []ast.Stmt
					touches := func(st ast.Stmt) string {
						// only the statement's own expressions, not nested blocks
						name := ""
						ast.Inspect(st, func(n ast.Node) bool {
							switch n.(type) {
							case *ast.BlockStmt, *ast.FuncLit:
								return false
							}
							if id, ok := n.(*ast.Ident); ok {
								if v, ok := p.TypesInfo.Uses[id].(*types.Var); ok && watched[v] {
									name = v.Name()
								}
								// calls into the file system and the spec loader are scheduling points too:
								// the target directory, temp files and loader caches are shared state
								if pn, ok := p.TypesInfo.Uses[id].(*types.PkgName); ok {
									switch pn.Imported().Path() {
									case "os", "io/ioutil", "github.com/go-openapi/loads":
										if name == "" {
											name = "io:" + pn.Imported().Name()
										}
									}
								}
							}
							return true
						})
						return name
					}
					insertPoints = func(list []ast.Stmt) []ast.Stmt {
						out := make([]ast.Stmt, 0, len(list))
						for _, st := range list {
							if _, isDecl := st.(*ast.DeclStmt); !isDecl {
								if vn := touches(st); vn != "" {
									siteID++
									pos := p.Fset.Position(st.Pos())
									res.Sites = append(res.Sites, Site{ID: siteID, Kind: "point", Pos: fmt.Sprintf("%s:%d", rel, pos.Line), Func: curFunc, Var: vn})
									out = append(out, &ast.ExprStmt{X: &ast.CallExpr{Fun: &ast.SelectorExpr{X: ast.NewIdent("vrt"), Sel: ast.NewIdent("Point")}, Args: []ast.Expr{&ast.BasicLit{Kind: token.INT, Value: fmt.Sprint(siteID)}}}})
									changed, needImport = true, true
								}
							}
							out = append(out, st)
						}
						return out
					}
					ast.Inspect(fd.Body, func(n ast.Node) bool {
						switch t := n.(type) {
						case *ast.BlockStmt:
							isClauseList := false
							for _, st := range t.List {
								switch st.(type) {
								case *ast.CaseClause, *ast.CommClause:
									isClauseList = true
								}
							}
							if !isClauseList {
								t.List = insertPoints(t.List)
							}
						case *ast.CaseClause:
							t.Body = insertPoints(t.Body)
						}
						return true
					})
				}
				// sync.Mutex -> vrt.Mutex (type expressions only)
				ast.Inspect(f, func(n ast.Node) bool {
					se, ok := n.(*ast.SelectorExpr)
					if !ok {
						return true
					}
					if id, ok := se.X.(*ast.Ident); ok && id.Name == "sync" && se.Sel.Name == "Mutex" {
						if _, isPkg := p.TypesInfo.Uses[id].(*types.PkgName); isPkg {
							id.Name = "vrt"
							changed, needImport = true, true
						}
					}
					return true
				})
			}

			if !changed {
				continue
			}
			if needImport {
				addImport(f, vrtImport)
			}
			dropUnusedSync(f)
			// free-floating comments confuse the printer once statements without positions are inserted:
			// keep only directives and what precedes the package clause (build constraints)
			var keep []*ast.CommentGroup
			for _, cg := range f.Comments {
				directive := cg.Pos() < f.Package
				for _, c := range cg.List {
					if strings.HasPrefix(c.Text, "//go:") || strings.HasPrefix(c.Text, "// +build") {
						directive = true
					}
				}
				if directive {
					keep = append(keep, cg)
				}
			}
			f.Comments = keep
			var buf bytes.Buffer
			if err := format.Node(&buf, p.Fset, f); err != nil {
				return nil, fmt.Errorf("%s: %v", rel, err)
			}
			out := filepath.Join(o.OutDir, strings.ReplaceAll(rel, "/", "__"))
			if err := os.WriteFile(out, buf.Bytes(), 0o644); err != nil {
				return nil, err
			}
			overlay[filename] = out
		}
	}
	// the runtime package, as a virtual package of the go-swagger module
	vrtOut := filepath.Join(o.OutDir, "vrt.go")
	src, err := os.ReadFile(o.VrtSource)
	if err != nil {
		return nil, err
	}
	if err := os.WriteFile(vrtOut, src, 0o644); err != nil {
		return nil, err
	}
	overlay[filepath.Join(o.Repo, "vrtverif", "vrt.go")] = vrtOut
	ob, _ := json.MarshalIndent(map[string]interface{}{"Replace": overlay}, "", " ")
	res.Overlay = filepath.Join(o.OutDir, "overlay.json")
	if err := os.WriteFile(res.Overlay, ob, 0o644); err != nil {
		return nil, err
	}
	pb, _ := json.MarshalIndent(map[string]interface{}{"Replace": map[string]string{filepath.Join(o.Repo, "vrtverif", "vrt.go"): vrtOut}}, "", " ")
	res.OverlayPlain = filepath.Join(o.OutDir, "overlay-plain.json")
	if err := os.WriteFile(res.OverlayPlain, pb, 0o644); err != nil {
		return nil, err
	}
	sb, _ := json.MarshalIndent(res.Sites, "", " ")
	_ = os.WriteFile(filepath.Join(o.OutDir, "sites.json"), sb, 0o644)
	return res, nil
}

func ident(n string) *ast.Ident { return ast.NewIdent(n) }

// rewriteRange turns `for k, v := range m { body }` into a block iterating vrt.Keys(site, m).
// Entries deleted during the iteration are skipped, as the language specifies.
func rewriteRange(rs *ast.RangeStmt, site int) ast.Stmt {
	mv := fmt.Sprintf("vrtm%d", site)
	kv := fmt.Sprintf("vrtk%d", site)
	okv := fmt.Sprintf("vrtok%d", site)
	tv := fmt.Sprintf("vrtv%d", site)
	hasKey := rs.Key != nil && !isBlank(rs.Key)
	hasVal := rs.Value != nil && !isBlank(rs.Value)
	lit := &ast.BasicLit{Kind: token.INT, Value: fmt.Sprint(site)}
	keys := &ast.CallExpr{Fun: &ast.SelectorExpr{X: ident("vrt"), Sel: ident("Keys")}, Args: []ast.Expr{lit, ident(mv)}}
	hoist := &ast.AssignStmt{Lhs: []ast.Expr{ident(mv)}, Tok: token.DEFINE, Rhs: []ast.Expr{rs.X}}
	cont := &ast.IfStmt{Cond: &ast.UnaryExpr{Op: token.NOT, X: ident(okv)}, Body: &ast.BlockStmt{List: []ast.Stmt{&ast.BranchStmt{Tok: token.CONTINUE}}}}
	if !hasKey && !hasVal {
		// for range m
		return &ast.BlockStmt{List: []ast.Stmt{hoist, &ast.RangeStmt{X: keys, Body: rs.Body}}}
	}
	var pre []ast.Stmt
	loopVar := ast.Expr(ident(kv))
	if rs.Tok == token.DEFINE {
		keyName := kv
		if hasKey {
			loopVar = rs.Key
			keyName = rs.Key.(*ast.Ident).Name
		}
		idx := &ast.IndexExpr{X: ident(mv), Index: ident(keyName)}
		if hasVal {
			pre = append(pre, &ast.AssignStmt{Lhs: []ast.Expr{rs.Value, ident(okv)}, Tok: token.DEFINE, Rhs: []ast.Expr{idx}}, cont)
		} else {
			pre = append(pre, &ast.AssignStmt{Lhs: []ast.Expr{ident("_"), ident(okv)}, Tok: token.DEFINE, Rhs: []ast.Expr{idx}}, cont)
		}
	} else {
		idx := &ast.IndexExpr{X: ident(mv), Index: ident(kv)}
		pre = append(pre, &ast.AssignStmt{Lhs: []ast.Expr{ident(tv), ident(okv)}, Tok: token.DEFINE, Rhs: []ast.Expr{idx}}, cont)
		if hasKey {
			pre = append(pre, &ast.AssignStmt{Lhs: []ast.Expr{rs.Key}, Tok: token.ASSIGN, Rhs: []ast.Expr{ident(kv)}})
		}
		if hasVal {
			pre = append(pre, &ast.AssignStmt{Lhs: []ast.Expr{rs.Value}, Tok: token.ASSIGN, Rhs: []ast.Expr{ident(tv)}})
		} else {
			pre = append(pre, &ast.AssignStmt{Lhs: []ast.Expr{ident("_")}, Tok: token.ASSIGN, Rhs: []ast.Expr{ident(tv)}})
		}
	}
	// the original body keeps its own scope (it may re-declare the loop variables)
	body := &ast.BlockStmt{List: append(pre, rs.Body)}
	loop := &ast.RangeStmt{Key: ident("_"), Value: loopVar, Tok: token.DEFINE, X: keys, Body: body}
	return &ast.BlockStmt{List: []ast.Stmt{hoist, loop}}
}

func isBlank(e ast.Expr) bool {
	id, ok := e.(*ast.Ident)
	return ok && id.Name == "_"
}

func addImport(f *ast.File, path string) {
	for _, im := range f.Imports {
		if strings.Trim(im.Path.Value, `"`) == path {
			return
		}
	}
	spec := &ast.ImportSpec{Name: ident("vrt"), Path: &ast.BasicLit{Kind: token.STRING, Value: fmt.Sprintf("%q", path)}}
	decl := &ast.GenDecl{Tok: token.IMPORT, Specs: []ast.Spec{spec}}
	f.Decls = append([]ast.Decl{decl}, f.Decls...)
	f.Imports = append(f.Imports, spec)
}

// dropUnusedSync removes the "sync" import when sync.Mutex was its only use.
func dropUnusedSync(f *ast.File) {
	used := false
	ast.Inspect(f, func(n ast.Node) bool {
		if se, ok := n.(*ast.SelectorExpr); ok {
			if id, ok := se.X.(*ast.Ident); ok && id.Name == "sync" {
				used = true
			}
		}
		return true
	})
	if used {
		return
	}
	for _, d := range f.Decls {
		gd, ok := d.(*ast.GenDecl)
		if !ok || gd.Tok != token.IMPORT {
			continue
		}
		var keep []ast.Spec
		for _, s := range gd.Specs {
			is := s.(*ast.ImportSpec)
			if strings.Trim(is.Path.Value, `"`) == "sync" && is.Name == nil {
				continue
			}
			keep = append(keep, s)
		}
		gd.Specs = keep
	}
}
