def classify(sig, what):
    if sig.startswith('X1'):
        return 'X1: with --with-expand the generator replaces the loaded document by specDoc.Pristine() (validateAndFlattenSpec), so the document embedded as the ORIGINAL spec (restapi.SwaggerJSON, GET /swagger.json) is the expanded one: every $ref of the input is inlined. Repair needs the input document to be kept aside before Pristine(); not a one-liner.'
    if sig.startswith('X2'):
        return 'X2: explicit false-valued booleans of the input (required:false, readOnly:false, deprecated:false, uniqueItems:false ...) are dropped from the embedded original because go-openapi/spec marshals them with omitempty: semantically equal, not JSON-equal. Root cause in the go-openapi/spec dependency.'
    if 'synth' in sig and 'FlatSwaggerJSON' in sig:
        return 'X3: a user definition whose name equals a name the generator synthesises for an anonymous schema (HolderItemsItems0) is overwritten in the flattened document (makeNewStruct assigns sp.Definitions[name] without checking), so FlatSwaggerJSON describes a different schema under that name (expand mode); in minimal mode the same collision makes the generated code fail to build (C01/C08).'
    return None
