def classify(sig, what):
    if 'must be of type array: "string"' in sig:
        return 'B1: []byte (and named byte slices, []uint8, also inside slices, arrays, maps and behind pointers) is walked as a slice of uint8 and scanned as {type: array, items: {type: integer, format: uint8}}, while encoding/json encodes it as a base64 string; the encoding is invalid for the scanned definition. A repair (string/byte) changes the scanned type of existing APIs, so it is recorded rather than repaired.'
    if ',string' in sig and ('must be of type integer: "string"' in sig or 'must be of type number: "string"' in sig):
        return 'S2: the ,string json option is honoured only for builtin scalar type names (AST based): a field of a NAMED integer/float type with ,string is scanned as integer/number while encoding/json encodes it as a quoted string. (The builtin omissions byte, rune, float32, uintptr were repaired.)'
    return None

_prev = classify
def classify(sig, what):
    r = _prev(sig, what)
    if r: return r
    if sig.startswith('property-names | embedded struct with a json tag'):
        return 'E1: an embedded struct field carrying a json tag (Base `json:"base"`) is encoded by encoding/json as a nested object under that key, but the scanner still flattens the promoted fields into the parent definition: the property names differ from the JSON encoding.'
    return None
