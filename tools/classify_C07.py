def classify(sig, what):
    if 'expand' in sig and (sig.startswith('unowned-nondeterminism') or sig.startswith('repeat-run-differs')):
        return 'ND2: `swagger expand` on a document with a recursive definition (Person.friends -> Person) gives different documents from run to run even with every go-swagger map iterated in a fixed order: the depth at which go-openapi/spec stops expanding the cycle depends on map iteration inside the dependency. Root cause in go-openapi/spec (expander); not repairable inside go-swagger.'
    if 'generate spec' in sig and sig.startswith('unowned-nondeterminism'):
        return 'ND3: `swagger generate spec -m` on fixtures/goparsing/classification gives different documents from run to run with every go-swagger map in a fixed order: the definition named URL is sometimes taken with the doc comment / x-go-package of net/url.URL and sometimes not (two discovered types compete for one definition name; which one wins depends on discovery order outside the instrumented ranges).'
    if sig.startswith('repeat-run-differs') and 'generate spec' in sig:
        return 'ND3 (direct observation): repeating generate spec on the scanner fixtures in a new process gives a different document.'
    return None
