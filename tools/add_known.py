#!/usr/bin/env python3
"""Developer tool (never run by a check): appends the NEW violation signatures of the last run of
<prop> to known_findings.json after they have been reviewed and classified as genuine defects.
usage: add_known.py <prop> <classifier-module-function> ; the classifier maps signature -> root cause text or None (skip)."""
import json, sys, importlib.util
prop = sys.argv[1]
ev = json.load(open(sys.argv[2] if len(sys.argv) > 2 else '/verif/evidence/%s.json' % prop))
kf = json.load(open('/verif/known_findings.json'))
have = {(f['property'], f['signature']) for f in kf['findings']}
spec = importlib.util.spec_from_file_location('cls', '/verif/tools/classify_%s.py' % prop)
mod = importlib.util.module_from_spec(spec); spec.loader.exec_module(mod)
n = 0
for v in ev['coverage'].get('new_violations', []):
    sig = v['signature']
    if (prop, sig) in have: continue
    rc = mod.classify(sig, v['what'])
    if rc is None:
        print('UNCLASSIFIED (left as violation):', sig); continue
    kf['findings'].append({'property': prop, 'status': 'known', 'signature': sig, 'what': rc, 'input': v['what'][:200]})
    n += 1
json.dump(kf, open('/verif/known_findings.json', 'w'), indent=1)
print('added', n)
