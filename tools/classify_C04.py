def classify(sig, what):
    if sig.startswith('not-delivered | body | inline-') and 'optional' in sig:
        return 'I1: an OPTIONAL body parameter with an inline primitive/object schema is generated on the client side as a non-pointer field, so "no body" cannot be expressed: the client sends the zero value ("" / {}), which the generated server then rejects with 422 when the schema has validations (minLength, required members). Absent optional bodies satisfy the spec but cannot be delivered.'
    return None
