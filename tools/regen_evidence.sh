#!/bin/bash
# regen_evidence.sh [ids...]: runs the quick tier of every (or the given) check on /repo's unchanged tree and
# reports one line per check; evidence/<id>.json is rewritten by each run. Refuses to run on a dirty /repo.
cd /verif
if [ -n "$(git -C /repo status --porcelain)" ]; then echo "/repo is dirty"; exit 2; fi
IDS=${@:-C12 C14 C13 C15 C04 C06 C08 C03 C18 C11 C02 C05 C16 C19 C10 C17 C01 C09 C07}
for id in $IDS; do
  s=$(date +%s)
  ./check.sh $id --tier quick > /var/tmp/regen.$id.log 2>&1; rc=$?
  e=$(( $(date +%s) - s ))
  echo "$id exit=$rc ${e}s viol=$(grep -c '^VIOLATION' /var/tmp/regen.$id.log) known=$(grep -c '^KNOWN-FINDING' /var/tmp/regen.$id.log) :: $(tail -1 /var/tmp/regen.$id.log | cut -c1-200)"
done
