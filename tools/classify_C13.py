def classify(sig, what):
    if sig.startswith('exit0'): return None
    kind, site = sig.split(' @ ')
    if kind.startswith('response') and site.endswith('/default'):
        return 'R8: only status-code responses are compared; the default response is never analysed (' + kind + ' at ' + site + ')'
    if kind.startswith('response') and site.startswith('allOf-ref+inline'):
        return 'R7: diff never compares the members of an allOf (no direct properties on either side); ' + kind + ' in a $ref member of a response allOf is only seen under "Spec Definitions", where request rules apply (enum growth = NonBreaking)'
    if kind.startswith('response') and site.startswith('map-of-ref'):
        return 'R9: diff never descends into additionalProperties schemas; ' + kind + ' in the value definition of a response map is only seen under "Spec Definitions" with request rules'
    if kind.startswith('response') and site.startswith('ref>prop-ref'):
        return 'R10: a definition reached from a response through $ref -> property -> $ref is compared once, under "Spec Definitions", with request-side rules: the response context is lost, so ' + kind + ' (breaking for clients) is classified NonBreaking'
    if kind in ('maximum lowered and made inclusive', 'minimum raised and made inclusive') and site not in ('items', 'nested-items'):
        return 'R11: when an exclusiveMaximum / exclusiveMinimum flag is removed, checkNumericTypeChanges reports "Widened type - Exclusive ... Removed" and skips the comparison of the bounds (foundDiff), so a bound that is narrowed in the same edit goes unreported: ' + kind + ' at ' + site + ' is classified NonBreaking. Repair attempted (always compare the bounds); the kitchensink fixture of spec_analyser_test pins the current report, so it is recorded instead.'
    if site == 'body.allOf': return 'R7: diff never compares schemas/required sets inside allOf members of a body schema (CompareProperties returns early when neither side has direct properties); ' + kind + ' inside an allOf member is unreported'
    if site == 'body.map': return 'R9: diff never descends into additionalProperties schemas; ' + kind + ' on map values is unreported'
    if site in ('items', 'nested-items'): return 'R5: diff never compares the items of array-typed simple parameters (only collectionFormat/default/example are looked at); ' + kind + ' on items is unreported'
    if kind in ('enum added', 'integer enum value removed'): return 'R2: CompareEnums runs only for string types and only when the old enum is non-empty; ' + kind + ' is unreported at ' + site
    if kind == 'multipleOf added': return 'R3: multipleOf is never compared; adding it is unreported at ' + site
    if kind == 'uniqueItems added': return 'R4: uniqueItems is never compared; adding it is unreported at ' + site
    if kind == 'consumes media type removed' and site == 'operation': return 'R6: only the global consumes list is compared; removing a media type from an operation-level consumes list is unreported'
    if kind == 'response property removed' and site == 'default-response': return 'R8: only status-code responses are compared; the default response is never analysed'
    return None
