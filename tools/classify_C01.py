def classify(sig, what):
    parts = sig.split(' | ')
    target, kind, msg = parts[0], parts[1], parts[-1]
    body = ' | '.join(parts[2:-1])
    if kind == 'name-refused':
        return 'N2: a valid document whose names (' + body[5:] + ', placed in every name position) start with a digit, contain a backtick or contain non-ASCII letters makes generate ' + target + ' fail with a source-formatting error on its own output (' + msg + '): the name manglers produce an identifier starting with a digit / cut a multi-byte rune / leave the backtick inside a raw string. The property demands success for any name with a letter.'
    if 'nondeterministic outcome' in sig:
        return 'ND1: the generator output for this target is not a function of its input: the same document sometimes yields code that builds and sometimes code that does not (map-iteration order inside the generator, see C07); observed e.g. on two-hop $ref chains (m.P == nil on a non-pointer alias) and on cli imports.'
    if body.startswith('c08:'):
        cls = body.split(':')[1]
        rest = body[len('c08:' + cls) + 1:]
        if cls == 'operation-ids-across-packages':
            return 'O4: two operations whose ids mangle to one Go name but live in different tag packages (legitimate), each with an inline payload holding a NESTED inline object: the nested schema is lifted into the models package under one synthesised name (GetPetOKBodyNested) for both operations, one operation package refers to models.<Name> and the models package is not generated at all: generate ' + target + ' exits 0 and the result does not build (' + rest + ').'
        if cls.startswith('definition'):
            return 'D1 (build face): definition names that collide after mangling - also with names the generator synthesises (FooItems0, GetAOKBody) - are written into one models file / declared twice; where nothing is silently lost the result does not build: generate ' + target + ' exits 0 (' + rest + ': ' + msg + ').'
        if cls.startswith('operation') or cls.startswith('paths'):
            return 'O1 (build face): operation ids (or paths without id) that mangle to one Go name are registered twice (duplicate field / method / file): generate ' + target + ' exits 0 and the result does not build instead of failing with an error (' + rest + ': ' + msg + ').'
        if cls == 'tags':
            return 'O3 (build face): tags that map to one package name - also through the generator\'s own de-confliction - produce duplicate methods / mismatched package references in the ' + target + ' target: exits 0, does not build (' + rest + ': ' + msg + ').'
        return 'O?: a colliding-name spec of C08 (' + body + ') makes generate ' + target + ' exit 0 with code that does not build (' + msg + ').'
    if body.startswith('ext:'):
        e = body[4:]
        if 'ref of ref (alias definition)' in e:
            return 'XG1: a definition that is only a $ref to a definition carrying x-go-type (an external type) is rendered as `type User = Ext`, but no type is generated for the external definition Ext (the docs: "such definitions do not produce any generated model" and every reference is replaced by the external type): "undefined: Ext"; generate ' + target + ' exits 0 and the package does not compile (' + e + ').'
        if 'kind interface' in e and ('required' in e or 'body parameter' in e):
            return 'XG2: x-go-type with hints.kind: interface (documented: "external types with an hint type interface or stream do not call validations") used through a $ref as a REQUIRED property / required body still gets a .Validate(formats) call on the external type (json.RawMessage has no such method); exits 0, does not compile (' + e + ').'
        if 'noValidation' in e:
            return 'XG3: the documented hint x-go-type.hints.noValidation: true is honoured for properties, items and map values but not where the external type is an allOf member (m.NoValidate.Validate) or a body parameter of the generated server/client (body.Validate): the generated code calls Validate on a type that has none; exits 0, does not compile (' + e + ').'
        if kind == 'generate-fails':
            return 'XG4: generate ' + target + ' fails on a valid document using the documented x-go-type extension (' + e + '): ' + msg
        return 'XG5: generate ' + target + ' exits 0 on a document using the documented x-go-type / struct-tag extensions (' + e + ') but the generated code does not compile (' + msg + ').'
    if target == 'model' and 'poly>' in body:
        return 'PB1: a discriminated base type used inside a composition other than a plain property or array property - member of an allOf next to a $ref, top-level array alias, additionalProperties next to declared properties, tuple item - is rendered by templates that treat the interface type like a struct (petField of an embedded member, methods on an interface receiver, pointer to interface, assignment to a getter): generate model exits 0 and the package does not compile (' + body + ': ' + msg + ').'
    if target == 'model' and 'tuple' in body:
        return 'TU1: a map whose values are a tuple (additionalProperties: {type: array, items: [..]}) makes generate model fail with a source-formatting error on its own output (the map value type is rendered empty): a plain valid document is refused (' + body + ').'
    if target == 'model' and 'enumpair' in body:
        return 'M4: two enum values that differ only by one punctuation character (' + body + ') mangle to the same Go constant name: "redeclared"; generate model exits 0 and the package does not compile. Only . + - # are spelled out by the generator.'
    if target == 'model' and 'name-position' in body and kind == 'generate-fails':
        return 'N3: a property name holding a double quote or a backslash makes generate model crash (nil pointer dereference in loads.Document.Pristine, called by makeCodegenApp): go-openapi/spec OrderSchemaItems.MarshalJSON writes property names into JSON without escaping them, the re-serialised document does not parse, Pristine ignores the error and returns a nil document. Root cause in the dependency; the generator does not guard the call (' + body + ').'
    if target == 'model' and 'name-position' in body:
        return 'N1: a property name in a single position (' + body + ') collides with an identifier or method the model templates use (' + msg + '): generate model exits 0 and the package does not compile.'
    if target == 'model' and not body.startswith('name:'):
        if 'undefined' in msg: return 'M3: an enum on a schema nested two anonymous levels deep (items of items, values of a map inside an array/map, a property of an inline allOf member) is validated by calling m.validate<Name>ItemsEnum / ...ValueEnum / validate<Prop>Enum, a method the model template only emits for first-level properties, items and values: "undefined"; generate model exits 0 and the package does not compile (' + body + ').'
        if 'redeclared' in msg: return 'M4: enum values made only of / differing only by punctuation ("<=", "a&b", ...) mangle to the same Go constant name: "redeclared"; generate model exits 0 and the package does not compile (' + body + ').'
        if 'invalid constant type' in msg: return 'M1: an enum on a string with format date/date-time (or another strfmt type) is generated as Go constants of a struct type (strfmt.Date): "invalid constant type"; generate model exits 0 and the package does not compile.'
        if 'mismatched types' in msg: return 'M2: a property reached through a two-hop $ref chain to a primitive alias is treated as nullable by the validation template (m.P == nil) although its Go type is a named non-pointer type: "mismatched types"; exits 0, does not compile.'
        return 'M?: generate model exits 0 but the generated package does not compile (' + msg + ') for ' + body
    if target == 'cli':
        if kind == 'generate-fails': return 'CL3: generate cli fails with a source-formatting error on a plain valid document under ' + body + ' (the cli templates emit invalid Go for expanded inline schemas).'
        if 'cannot use' in msg: return 'CL1: the cli templates declare array flag variables / defaults with the wrong Go type ([]interface{} literal as []string default, pointer to slice for strfmt item types): generate cli exits 0, the cli package does not compile (' + body + ').'
        return 'CL2: generate cli exits 0 but the result does not compile (' + msg + ') for ' + body
    if body.startswith('name-position') and kind == 'generate-fails':
        return 'N2: a valid document with a parameter name (' + body + ') that contains non-ASCII letters makes generate ' + target + ' fail with a source-formatting error on its own output (' + msg + '): the name manglers cut a multi-byte rune. The property demands success for any name with a letter.'
    if body.startswith('name-position'):
        return 'N1: a spec name placed in a single position (' + body + ') collides with an identifier, a predeclared name, a generated method or an imported package name used by the ' + target + ' templates (' + msg + '): the command exits 0 and the generated code does not compile.'
    if target == 'model' and 'enumpair' in body:
        return 'M4: two enum values that differ only by one punctuation character (' + body + ') mangle to the same Go constant name: "redeclared"; generate model exits 0 and the package does not compile. Only . + - # are spelled out by the generator.'
    if body.startswith('name:'):
        return 'N1: the spec name ' + body[5:] + ' (placed in every name position) collides with an identifier, a predeclared name or an imported package name used by the ' + target + ' templates (' + msg + '): the command exits 0 and the generated code does not compile. The name de-confliction tables (MangleVarName / reserved words / deconflictPkg) do not cover it.'
    if 'same-name-two-locations' in body or 'punctuation' in body or 'mangle-alike' in body:
        return 'P1: two spec names that are distinct in Swagger (same parameter name in two locations, names differing only by punctuation) mangle to one Go identifier (' + msg + ') in the ' + target + ' target: exits 0, does not compile (' + body + ').'
    if body.startswith('security:') and 'differ-by-case' in body:
        return 'P1: two security scheme names that are distinct in Swagger (key / Key) mangle to one Go identifier (KeyAuth field, ' + msg + ') in the ' + target + ' target: exits 0, does not compile.'
    if body.startswith('switch'):
        return 'S1: generate ' + target + ' with ' + body + ' exits 0 on the rich spec but the result does not compile (' + msg + ').'
    return 'G1: generate ' + target + ' exits 0 on ' + body + ' but the generated code does not compile (' + msg + ').'
