def classify(sig, what):
    if not sig.startswith('asym '): return None
    rc = []
    if 'Description' in sig: rc.append('D: compareDescripton reports a changed (non-empty -> non-empty) description as "Deleted" in both directions (behaviour pinned by fixtures/diff/uber.diff.txt, so not repairable without editing an existing test)')
    if 'EnumValue' in sig: rc.append('E: CompareEnums only runs when the OLD enum is non-empty, so enum-added is silent while the reverse reports deleted values')
    if 'Property' in sig: rc.append('P: CompareProperties detects deleted properties on the allOf-flattened maps but added properties on the raw .Properties maps (and skips schemas without direct properties), so allOf-inherited properties are reported in one direction only (repair attempted; fixtures/diff/response.diff.txt pins the one-sided output)')
    if 'Type' in sig: rc.append('T: CheckToFromPrimitiveType/compareSchema report a type change only when the OLD side is an array/primitive; untyped or allOf old schemas are silent')
    if 'Constraint' in sig: rc.append('C: CompareProps compares maxItems/minItems only when the OLD schema is an array, so the reverse direction is silent')
    if 'Required' in sig: rc.append('Q: required/optional change reported in one direction only')
    if not rc: return None
    return 'direction asymmetry; ' + ' / '.join(rc)
