def classify(sig, what):
    if 'scalar=merge' in sig:
        return 'Y1: the string "<<" is written as a plain (unquoted) YAML scalar by the yaml.v3 encoder used by every command (swag.JSONMapSlice.MarshalYAML, marshalToYAMLFormat, init spec), and the toolkit loader then rejects it as an unsupported merge key: the YAML output cannot be loaded back while the JSON output can. Root cause lies in the gopkg.in/yaml.v3 dependency (encoder does not quote the merge indicator); no small repair inside go-swagger.'
    return None
