def classify(sig, what):
    if 'scalar=merge' in sig:
        return 'Y1: the string "<<" is written as a plain (unquoted) YAML scalar by the yaml.v3 encoder used by every command (swag.JSONMapSlice.MarshalYAML, marshalToYAMLFormat, init spec), and the toolkit loader then rejects it as an unsupported merge key: the YAML output cannot be loaded back while the JSON output can. Root cause lies in the gopkg.in/yaml.v3 dependency (encoder does not quote the merge indicator); no small repair inside go-swagger.'
    if 'scalar=long as key' in sig and 'generate-spec' in sig:
        return 'Y2: generate spec renders YAML by parsing its JSON output as YAML (marshalToYAMLFormat: yaml.Unmarshal on JSON bytes); YAML limits implicit keys to 1024 characters, so a document with a very long key (4 KB property name) makes --output x.yml fail while JSON output works.'
    if 'scalar=num-2^63' in sig:
        return 'Y3: a number >= 2^63 passes through float64 and is written to YAML as the integer literal 9223372036854776000, which the toolkit loader (swag YAML -> JSON conversion) refuses as a scalar; the JSON output loads. Root cause in the yaml/swag number handling (dependency) reached through marshalToYAMLFormat.'
    if sig.startswith('panic mixin-keep-spec-order') and 'scalar=long' in sig:
        return 'Y4: --keep-spec-order pre-processes the mixed-in file with generator.WithAutoXOrder, which parses it (also when it is JSON) with yaml.v2 and panics on any error (generator/spec.go: panic(err)); a 4 KB key exceeds YAML\'s 1024-character limit for implicit keys, so `swagger mixin --keep-spec-order` crashes on a JSON document that every other command accepts.'
    if 'mixin-keep-spec-order' in sig and 'scalar=trailing-nl' in sig:
        return 'Y5: --keep-spec-order rewrites the mixed-in file through yaml.v2 (WithAutoXOrder writes a temporary YAML file); a string value ending in a newline, given in a YAML input as a block scalar, loses the trailing newline on the way ("a\\n" becomes "a"), while the JSON rendering of the same input keeps it.'
    return None
