def classify(sig, what):
    if sig.startswith('adds-zero-date'):
        return 'Z1: optional properties of format date / date-time are generated as non-pointer strfmt.Date / strfmt.DateTime struct fields with `omitempty`, which encoding/json never omits for struct types: an absent optional date is re-encoded as "0001-01-01" / "0001-01-01T00:00:00.000Z" (a key the document did not have). Repair needs pointer fields or custom marshalling for these formats (behaviour change for users), so recorded rather than repaired.'
    if sig.startswith('decode-fails') and sig.endswith('| Puppy'):
        return 'PD1: a subtype of a subtype (Puppy: allOf[$ref Dog], Dog: allOf[$ref Pet], Pet has the discriminator) is not registered in the base type\'s Unmarshal factory: the generated unmarshalPet switch only lists definitions whose allOf refers to the base type directly, so a valid Puppy document is rejected with "invalid kind value" wherever a Pet is expected, and by Puppy\'s own UnmarshalJSON. Repair means walking allOf chains transitively in discriminator discovery (generator/discriminators.go), not a one-line patch.'
    if sig.startswith('decode-fails') and ('map of base' in sig):
        return 'PM1: a map whose values are a discriminated base type (additionalProperties: {$ref: Pet}, as a definition or as a property) is generated as map[string]Pet with no custom unmarshaller: encoding/json cannot decode an object into the interface type Pet, so every document with an entry is rejected. (Arrays of base types get an Unmarshal<T>Slice helper; maps have no counterpart.)'
    if sig.startswith('lossy') and sig.endswith('bignum'):
        return 'LN1: values of undeclared properties kept by additionalProperties:true are decoded with plain json.Unmarshal into interface{} (float64): an integer that float64 cannot represent (9007199254740993) comes back changed (…992). Tuples and untyped properties use UseNumber; the additionalProperties serializer does not.'
    if sig.startswith('panic ') and '>allOf' in sig:
        return 'A3 (see C02): the validator of an inline allOf used as a property dereferences the nil pointer of an optional member with maximum: 0; the round-trip driver calls Validate after decoding, so the panic shows here too.'
    if sig.startswith('lossy') and '>allOf' in sig and '(only right)' in what and 'null' in what:
        return 'Z2: an OPTIONAL property whose schema is an inline allOf is generated as a non-pointer anonymous struct; encoding/json cannot omit it, so a document without the property is re-encoded with it, its required members rendered as null ({"p":{"z":null}}): a key the document did not have, holding a value the schema rejects.'
    return None
