def classify(sig, what):
    if sig.startswith('adds-zero-date'):
        return 'Z1: optional properties of format date / date-time are generated as non-pointer strfmt.Date / strfmt.DateTime struct fields with `omitempty`, which encoding/json never omits for struct types: an absent optional date is re-encoded as "0001-01-01" / "0001-01-01T00:00:00.000Z" (a key the document did not have). Repair needs pointer fields or custom marshalling for these formats (behaviour change for users), so recorded rather than repaired.'
    return None
