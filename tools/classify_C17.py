def classify(sig, what):
    if sig.startswith('invalid-document | parameters:example'):
        return 'V1: the documented "example:" annotation on a swagger:parameters field is copied into a non-body parameter, where Swagger 2.0 does not allow "example": generate spec exits 0 with a document that fails Swagger 2.0 validation.'
    return None
