def classify(sig, what):
    kind = sig.split(' | ')[0]
    if kind == 'definition-lost': kind = 'definition-dropped'
    if kind == 'operation-lost': kind = 'operation-dropped'
    if 'tags operations / operationsops' in sig or 'tags api / apiops' in sig or 'tags models / modelsops' in sig:
        return 'O3: a tag whose name collides with a generated package (operations) is renamed by appending "ops" without checking that another tag already has that name (operationsops): both tags share one package and operations with the same id under the two tags overwrite each other - generation succeeds, one (method, path) has no handler.'
    if kind == 'client-definition-lost':
        return 'D1 (client target): two definitions whose names mangle to the same Go identifier / file name are written to the same models file by generate client as well: one of them silently disappears.'
    if kind == 'client-method-lost' and sig.split(' | ')[1] == 'tags':
        return 'O3/O1 (client target): tags that map to one client package (after mangling or after the generator\'s own de-confliction, e.g. a tag named models) share one <pkg>_client.go: the facade generated for one tag overwrites the other, generation succeeds and the operations of the overwritten tag have no client method.'
    if kind == 'client-method-lost':
        return 'O1 (client target): operations whose ids (given or derived from method+path) mangle to the same Go name overwrite each other in the generated client as well: generation succeeds and one (method, path) has no client method.'
    if kind == 'definition-dropped':
        return 'D1: two definitions whose names mangle to the same Go identifier / file name (a-b vs a_b, id vs ID, x vs X ...) are written to the same models file: generation succeeds and one of them silently disappears. No collision detection exists in the model planner (a repair means a new error path in appGenerator/gatherModels, not a one-line patch).'
    if kind in ('operation-dropped', 'operation-unreachable', 'operations-merged', 'wrong-handler'):
        return 'O1: operations whose ids (given, or derived from method+path when operationId is absent) mangle to the same Go name - or duplicate ids under --skip-validation - overwrite each other in gatherOperations / the generated files: generation succeeds, one handler is generated, the other (method, path) is unrouted (404/405) or both reach the same handler. No collision detection exists.'
    if kind == 'server-panics-at-startup':
        return 'O2: a spec declaring both /a and /a/ generates a server that builds but panics in go-openapi/runtime middleware.NewRouter at startup (duplicate route after path cleaning).'
    if kind == 'definition-not-compiled':
        return 'D2: a definition whose mangled file name ends in _test or a GOOS/GOARCH suffix is written to a file the Go tool excludes from the package.'
    return None
