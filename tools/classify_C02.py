def classify(sig, what):
    if sig.startswith('accepts-invalid-leaf string/date-time'):
        return 'F1: format date-time is enforced by the lenient strfmt.DateTime.UnmarshalJSON (accepts "" and date-only or other non-RFC3339 spellings) and the generated Validate then checks the re-rendered value, so the model accepts literals the reference validator rejects. Root cause is in go-openapi/strfmt (dependency) plus validation-after-parse in the generated code; no small repair inside go-swagger.'
    if sig.startswith('accepts-invalid-leaf string/byte'):
        return 'F2: format byte: strfmt.Base64 decodes the empty string without error, the reference validator rejects "" as base64. Root cause in go-openapi/strfmt vs validate (dependency disagreement).'
    parts = sig.split(' | ')
    strict = sig.startswith('strict ')
    chain = parts[0].replace('strict ', '').replace('panic ', '')
    ctx = chain.split('>')
    gen_true = sig.endswith('gen=true')
    if sig.startswith('panic ') and chain.endswith('>allOf'):
        return 'A3: an inline allOf used as a property schema is rendered as an anonymous struct whose optional member with maximum: 0 (a pointer, because zero must be distinguishable) is dereferenced by the validator without a nil check: Validate panics (nil pointer dereference) on a document that omits the member.'
    if chain.endswith('>allOf') and not gen_true:
        return 'A1/A2: an inline allOf used as a property (or as a member of another allOf) is rendered as an anonymous struct validated in place: its member properties are rendered Required although the member schema does not require them (A1), and optional numeric/string members with a lower bound are validated without the "if zero, not required" guard (A2) - a document that legitimately omits the member is rejected.'
    if any(c in ('props+minProps', 'props+maxProps') for c in ctx) and not (ctx[0] in ('props+minProps', 'props+maxProps') and 'string/date' in sig):
        return 'PC1 (generalises the validation face of Z1): minProperties / maxProperties of an object with declared properties are checked on the RE-MARSHALLED model, so every property the model cannot omit when it is absent from the document - a non-pointer date / date-time, an array rendered as null, a nested struct or allOf value, a map - is counted: ' + ('a document with too few properties is accepted' if gen_true else 'a document within the limit is rejected') + ' (' + chain + ').'
    if ctx[0] in ('props+minProps', 'props+maxProps') and 'string/date' in sig:
        return 'Z1 (validation face): minProperties / maxProperties of an object with declared properties are checked on the re-marshalled model; an OPTIONAL date / date-time property is a non-pointer strfmt value that is never omitted (it re-encodes as year 1), so it is counted although the document does not hold it: ' + ('a document with too few properties is accepted' if gen_true else 'a document within the limit is rejected') + ' (' + chain + ').'
    if any(c.startswith('allOf') for c in ctx) and not gen_true and 'z in body is required' in what:
        return 'A1: an inline allOf used as a property, item or map value (or as a member of another allOf) is rendered as an anonymous struct validated in place and EVERY member property is rendered Required, although only some are required by their member schema: a document without the optional member property z is rejected (' + chain + ').'
    hasmap = any(c.startswith('map') for c in ctx)
    if 'props+addl>ref' in chain and gen_true:
        return 'AP1: additionalProperties: {$ref: <validated primitive definition>} next to declared properties is decoded into map[string]*T and the values are not validated: a value violating the bounds of the referenced definition is accepted (at any nesting depth).'
    if hasmap and not gen_true and 'is required' in what:
        return 'E2: the counterpart of E1: where the generated loop over map values does call validate.Required on the value (values reached through $ref, maps under a required property), a value that decodes to the Go zero struct - {} for an object whose members are all optional - is reported as "required": a valid document is rejected.'
    if hasmap and gen_true and ctx[0] not in ('ref2prop', 'optrefprop', 'reqprop+nonnullable'):
        return 'E1: map values (and array items) of object type are stored by value and the generated loop skips them with `if swag.IsZero(m[k]) { continue } // not required`: a value that decodes to the Go zero struct - {} or only zero-valued members - is never validated, so {"k":{}} is accepted although the value schema has required members / constraints its zero values violate.'
    if ctx[0] == 'reqprop+nonnullable' and gen_true:
        return 'NN1: a REQUIRED property of object type marked x-nullable:false is generated as a non-pointer struct with no Required check at all: a document that omits the property is accepted (the documented tolerance only covers scalar zero values being read as absent, which makes them rejected).'
    if ctx[0] in ('ref2prop', 'optrefprop') and gen_true:
        return 'R2: a property -> $ref -> $ref -> (array | map | validated primitive) alias chain loses validations of the final target in the referring model: item counts, uniqueItems, property counts, bounds of items/values and, for maps and aliases, the required check of the property itself are not enforced.'
    if ctx[0] == 'props+addl' and len(ctx) > 1 and ctx[1] == 'ref' and gen_true:
        return 'AP1: additionalProperties: {$ref: <validated primitive definition>} next to declared properties is decoded into map[string]*T and the values are not validated: a value violating the bounds of the referenced definition is accepted.'
    return None
