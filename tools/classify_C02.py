def classify(sig, what):
    if sig.startswith('accepts-invalid-leaf string/date-time'):
        return 'F1: format date-time is enforced by the lenient strfmt.DateTime.UnmarshalJSON (accepts "" and date-only or other non-RFC3339 spellings) and the generated Validate then checks the re-rendered value, so the model accepts literals the reference validator rejects. Root cause is in go-openapi/strfmt (dependency) plus validation-after-parse in the generated code; no small repair inside go-swagger.'
    if sig.startswith('accepts-invalid-leaf string/byte'):
        return 'F2: format byte: strfmt.Base64 decodes the empty string without error, the reference validator rejects "" as base64. Root cause in go-openapi/strfmt vs validate (dependency disagreement).'
    return None
