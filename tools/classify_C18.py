def classify(sig, what):
    kw = sig.split(' | ')[0]
    site = sig.split('site=')[1].split(' |')[0] if 'site=' in sig else ''
    zero = 'zero-valued' in sig
    if sig.startswith('scan-fails') or sig.startswith('definition-missing'):
        return None
    if kw.startswith('$ref') or kw.startswith('type (only right)') or kw.startswith('format (only right)') or kw.startswith('items (only right)'):
        return 'L5: a definition that is only a $ref (alias) - or a property whose $ref points to such an alias - is generated as a Go type alias/definition of the target, so the scanner sees the target (or the next hop) instead of the original $ref: the $ref structure is not preserved (' + kw + ' at ' + site + ').'
    fam = sig.split('in=')[1] if 'in=' in sig else ''
    if kw.startswith('allOf') or ('allOf' in fam and site == 'definition-root' and (kw.startswith('properties (only right)') or kw.startswith('required (only right)'))):
        return 'L3: allOf of inline members is generated as one struct with embedded anonymous structs; the scanner reads it back as a plain object with merged properties: the allOf structure is lost.'
    if kw.startswith('additionalProperties'):
        return 'L4: additionalProperties declared next to properties is generated as a map field tagged json:"-" with custom (un)marshallers; the scanner does not read it back.'
    if kw.startswith('enum[] (differs: number became string)'):
        return 'L7: non-string enum values are emitted in the doc comment as JSON and read back by the scanner as strings (1 becomes "1").'
    if 'exponent-notation' in sig:
        return 'L11: a numeric bound that Go prints in exponent notation (maximum: 1e+21) is emitted in the doc comment as "Maximum: 1e+21", which the scanner grammar does not read (the existing test TestSchemaValueExtractors pins that "2e10" is not a number for the scanner, so a repair of the regular expression was reverted): the bound is lost (' + kw + ' at ' + site + ').'
    if zero:
        return 'L8: zero-valued constraints (maximum: 0, minimum: 0, minLength: 0, maxLength: 0) are not emitted in the doc comments (the templates test {{ if .Maximum }}), so the scanned schema loses them (' + kw + ' at ' + site + ').'
    if kw.startswith('multipleOf') and site == 'property':
        return 'L6: "Multiple Of:" doc comments of properties are emitted but read back by the scanner only for some types; multipleOf is lost at ' + site + '.'
    if kw.startswith('minProperties') or kw.startswith('maxProperties'):
        return 'L9: minProperties / maxProperties have no doc-comment annotation at all: the generated models enforce them in Validate only and the scanned schema loses them (' + kw + ' at ' + site + ').'
    if 'allOf' in fam and site == 'property' and (kw.startswith('properties (only right)') or kw.startswith('required (only right)')):
        return 'L3: a property whose schema is an inline allOf is generated as an anonymous struct; the scanner reads it back as a plain object with merged properties: the allOf structure is lost.'
    if kw.startswith('readOnly (only left)'):
        return 'L10: readOnly on a property of object type is generated as a field of a named struct type; the scanner renders the field as a bare $ref (siblings of $ref are not emitted), so the read-only flag is lost.'
    if site != 'property':
        return 'L1/L2: validation keywords outside struct fields - on a named primitive/array/map definition (definition-root), on array items or on map values - are only enforced in generated Validate code and are not emitted as scanner-readable annotations, so the scanned schema loses ' + kw + ' at ' + site + '.'
    return None
